"""Mutation and refactor catalogue for checker self-validation (thorough tier and development).
Each mutant is a small source edit that still compiles; `expect` lists obligation keys that must start failing.
Edits are (file, old text, new text); the old text must occur exactly once in the current tree, otherwise the
entry is reported as skipped (the tree was edited), never as a failure."""

OPS = "src/mqtt_client/session/operations.rs"
DRIVE = "src/mqtt_client/session/drive.rs"
INB = "src/mqtt_client/session/inbound.rs"
OUT = "src/mqtt_client/outbound.rs"
HS = "src/mqtt_client/session/handshake.rs"
STATE = "src/mqtt_client/session/state.rs"
SMOD = "src/mqtt_client/session/mod.rs"
PROPS = "src/properties.rs"

MUTANTS = []
REFACTORS = []


def M(mid, props, edits, expect):
    MUTANTS.append((mid, props if isinstance(props, list) else [props], edits, expect))


def RF(mid, props, edits):
    REFACTORS.append((mid, props if isinstance(props, list) else [props], edits))


# ---------------------------------------------------------------------------------------------- C11
M("C11-flush-no-latch", "C11", [(DRIVE, '''            warn!("Outbound packet flush failed: {}", err.kind());
            self.handle_disconnect();''', '''            warn!("Outbound packet flush failed: {}", err.kind());''')],
  ["C11/fatal/flush_current/Write.flush#1"])
M("C11-step-no-live-check", "C11", [(DRIVE, '''        if !self.live {
            return Err(Error::Disconnected);
        }
        let WriteStep {''', '''        let WriteStep {''')],
  ["C11/guard/perform_outbound_step/write_current#1"])
M("C11-invalid-packet-no-latch", "C11", [(INB, '''                warn!("Disconnecting session after packet handling error");
                self.handle_disconnect();
                Err(Error::Peer(PeerError::InvalidPacket))''', '''                warn!("Disconnecting session after packet handling error");
                Err(Error::Peer(PeerError::InvalidPacket))''')],
  ["C11/fatal-inbound/handle_packet#1"])
M("C11-decode-error-no-latch", "C11", [(INB, '''                warn!("Failed to decode inbound packet: {}", err);
                self.handle_disconnect();
                return Err(err.into());''', '''                warn!("Failed to decode inbound packet: {}", err);
                return Err(err.into());''')],
  ["C11/fatal-inbound/take_packet#1"])
M("C11-qos0-write-error-no-latch", "C11", [(OPS, '''            warn!("QoS0 PUBLISH write failed");
            self.handle_disconnect();''', '''            warn!("QoS0 PUBLISH write failed");''')],
  ["C11/fatal/publish/write_all#1"])
M("C11-subscribe-no-entry-check", "C11", [(OPS, '''        if !self.live {
            return Err(Error::Disconnected);
        }
        if topics.is_empty() {
            return Err(Error::InvalidRequest);
        }
        if !Properties::from_slice(properties).valid_for(PropertyContext::Subscribe) {''', '''        if topics.is_empty() {
            return Err(Error::InvalidRequest);
        }
        if !Properties::from_slice(properties).valid_for(PropertyContext::Subscribe) {''')],
  ["C11/entry/subscribe"])
M("C11-keepalive-timeout-no-latch", "C11", [(DRIVE, '''            self.handle_disconnect();
            return Err(Error::Disconnected);
        }
        self.service_outbound_once(now).await''', '''            return Err(Error::Disconnected);
        }
        self.service_outbound_once(now).await''')],
  ["C11/ctor/service#1"])
M("C11-read-error-latch-only-transport", "C11", [(DRIVE, '''                _ => {}
            }
            self.handle_disconnect();
            return Err(err);
        }
        Ok(())''', '''                _ => {}
            }
            if matches!(err, Error::Transport(_)) {
                self.handle_disconnect();
            }
            return Err(err);
        }
        Ok(())''')],
  ["C11/fatal/read_packet/fill_packet_reader#1"])
M("C11-can-publish-ignores-live", "C11", [(SMOD, '''        self.live && self.session.can_publish(qos)''', '''        self.session.can_publish(qos)''')],
  ["C11/canpub/live-gated"])
M("C11-disconnect-dead-returns-err", "C11", [(OPS, '''        if !self.live {
            return Ok(());
        }
        info!("Graceful disconnect requested");''', '''        if !self.live {
            return Err(Error::Disconnected);
        }
        info!("Graceful disconnect requested");''')],
  ["C11/dead-value/disconnect_with@1"])
M("C11-revive-after-disconnect", "C11", [(OPS, '''        // The transport is finished after a DISCONNECT regardless of the write outcome.
        self.handle_disconnect();
        result''', '''        // The transport is finished after a DISCONNECT regardless of the write outcome.
        self.handle_disconnect();
        if result.is_err() {
            self.live = true;
        }
        result''')],
  ["C11/once/disconnect_with"])

# ---------------------------------------------------------------------------------------------- C02
M("C02-retain-after-flush", "C02", [(OPS, '''            self.session
                .data
                .outbound
                .retain_packet(packet_id, offset, len)?;
            self.session.runtime.send_quota = self.session.runtime.send_quota.saturating_sub(1);''', '''            self.flush_outbound().await?;
            self.session
                .data
                .outbound
                .retain_packet(packet_id, offset, len)?;
            self.session.runtime.send_quota = self.session.runtime.send_quota.saturating_sub(1);''')],
  ["C02/enq/publish/enqueue-atomic"])
M("C02-swap-remove-retained", "C02", [(OUT, '''        self.retained.remove(position);''', '''        self.retained.swap_remove(position);''')],
  ["C02/order/retained/ack_packet/swap_remove"])
M("C02-puback-wrong-id", "C02", [(INB, '''                if !self.outbound.ack_packet(ack.packet_id) {
                    debug!("Ignoring stale PUBACK for packet id {=u16}", ack.packet_id);''', '''                if !self.outbound.ack_packet(ack.packet_id.wrapping_add(0)) {
                    debug!("Ignoring stale PUBACK for packet id {=u16}", ack.packet_id);''')],
  ["C02/remove/caller/PubAck"])
M("C02-pingresp-drops-oldest", "C02", [(INB, '''                trace!("Received PINGRESP");
                runtime.ping_timeout = None;''', '''                trace!("Received PINGRESP");
                runtime.ping_timeout = None;
                if runtime.send_quota == 0 {
                    self.outbound.ack_packet(1);
                }''')],
  ["C02/remove/caller/PingResp"])
M("C02-rearm-in-flush-outbound", "C02", [(DRIVE, '''        loop {
            self.maybe_queue_pingreq(Instant::now())?;
            let Some(step) = self.session.data.outbound.next_step() else {
                return Ok(());
            };''', '''        loop {
            self.maybe_queue_pingreq(Instant::now())?;
            let Some(step) = self.session.data.outbound.next_step() else {
                if self.session.runtime.ping_timeout.is_some() {
                    self.session.data.outbound.arm_replay();
                }
                return Ok(());
            };''')],
  ["C02/once/rearm-caller/flush_outbound"])
M("C02-reset-on-resumed", "C02", [(HS, '''        if !resumed {
            debug!("Broker started a fresh session; resetting local session state");
            self.data.reset();
        }''', '''        if !resumed || self.runtime.max_qos.is_none() {
            debug!("Broker started a fresh session; resetting local session state");
            self.data.reset();
        }''')],
  ["C02/remove/reset-caller/connect_handshake"])
M("C02-flush-marks-wrong-queue", "C02", [(DRIVE, '''            FlushedPacket::Retained(packet_id) => data.outbound.flush_retained(packet_id),
        };
        debug_assert!(found, "completed outbound packet no longer tracked");''', '''            FlushedPacket::Retained(packet_id) => data.outbound.flush_release(packet_id),
        };
        debug_assert!(found, "completed outbound packet no longer tracked");''')],
  ["C02/sent/complete/Retained"])
M("C02-no-dup-on-rearm", "C02", [(OUT, '''        self.mark_retained_dup();
        for entry in &mut self.pending_control {''', '''        for entry in &mut self.pending_control {''')],
  ["C02/dup/rearm/arm_replay"])
M("C02-clear-on-disconnect", "C02", [(HS, '''        self.data.outbound.arm_replay();
        self.runtime.reset_transport();
        self.packet_reader.reset();
    }''', '''        self.data.outbound.arm_replay();
        if self.data.outbound.retained_full() {
            self.data.outbound.clear();
        }
        self.runtime.reset_transport();
        self.packet_reader.reset();
    }''')],
  ["C02/remove/clear-caller/handle_disconnect"])

# ---------------------------------------------------------------------------------------------- C03
M("C03-swap-remove-release", "C03", [(OUT, '''        self.pending_release.remove(position);''', '''        self.pending_release.swap_remove(position);''')],
  ["C03/order/pending_release/ack_release/swap_remove"])
M("C03-pubrel-despite-failed-pubrec", "C03", [(INB, '''                rec.reason.code().as_result()?;
                if queue_release {
                    check_pubrel_size(
                        runtime.maximum_packet_size,
                        rec.packet_id,
                        ReasonCode::Success,
                    )?;
                    self.outbound
                        .queue_release(rec.packet_id, ReasonCode::Success)?;
                    debug!("Queued PUBREL for packet_id={=u16}", rec.packet_id);
                }''', '''                if queue_release {
                    check_pubrel_size(
                        runtime.maximum_packet_size,
                        rec.packet_id,
                        ReasonCode::Success,
                    )?;
                    self.outbound
                        .queue_release(rec.packet_id, ReasonCode::Success)?;
                    debug!("Queued PUBREL for packet_id={=u16}", rec.packet_id);
                }
                rec.reason.code().as_result()?;''')],
  ["C03/rel/after-reason#1"])
M("C03-requeue-on-stale-pubrec", "C03", [(INB, '''                            "Replaying PUBREL after stale PUBREC for packet id {=u16}",
                            rec.packet_id
                        );
                        false''', '''                            "Replaying PUBREL after stale PUBREC for packet id {=u16}",
                            rec.packet_id
                        );
                        true''')],
  ["C03/rel/after-removal#1"])
M("C03-pubrel-wrong-id", "C03", [(DRIVE, '''                    let packet = serialize_pubrel(
                        &mut small_buf,
                        step.packet_id,''', '''                    let packet = serialize_pubrel(
                        &mut small_buf,
                        step.packet_id.max(1),''')],
  ["C03/wire/pubrel-id#1"])
M("C03-pubcomp-removes-by-pubrec-id", "C03", [(INB, '''                if !self.outbound.ack_release(comp.packet_id) {''', '''                if !self.outbound.ack_release(comp.packet_id ^ 0) {''')],
  ["C03/comp/caller/PubComp"])
M("C03-release-not-rearmed", ["C03"], [(OUT, '''        for entry in &mut self.pending_release {
            entry.state = SendState::Write { written: 0 };
        }''', '''        for entry in &mut self.pending_release {
            let _ = entry;
        }''')],
  ["C03/wire/rearmed"])
M("C03-suback-queues-pubrel", "C03", [(INB, '''                debug!("Processed SUBACK packet_id={=u16}", ack.packet_id);''', '''                debug!("Processed SUBACK packet_id={=u16}", ack.packet_id);
                if ack.codes.is_empty() {
                    self.outbound.queue_release(ack.packet_id, ReasonCode::Success)?;
                }''')],
  ["C03/rel/COUNT"])

# ---------------------------------------------------------------------------------------------- C01
WIRE = "src/wire.rs"
SER = "src/ser/mod.rs"
M("C01-publish-no-leading-drain", "C01", [(OPS, '''            return Err(Error::Disconnected.into());
        }
        self.flush_outbound().await?;

        let Publication {''', '''            return Err(Error::Disconnected.into());
        }

        let Publication {''')],
  ["C01/drain/publish/write_all#1"])
M("C01-pubrel-flags-zero", "C01", [(WIRE, '''    const MESSAGE_TYPE: MessageType = MessageType::PubRel;

    fn fixed_header_flags(&self) -> u8 {
        0b0010
    }''', '''    const MESSAGE_TYPE: MessageType = MessageType::PubRel;

    fn fixed_header_flags(&self) -> u8 {
        0b0000
    }''')],
  ["C01/flags/value/PubRel"])
M("C01-pubcomp-wrong-type", "C01", [(WIRE, '''    const MESSAGE_TYPE: MessageType = MessageType::PubComp;''', '''    const MESSAGE_TYPE: MessageType = MessageType::PubRec;''')],
  ["C01/flags/type/PubComp"])
M("C01-compose-mask", "C01", [(SER, '''let header = ((typ as u8) << 4) | (flags & 0x0F);''', '''let header = ((typ as u8) << 4) | (flags & 0x1F);''')],
  ["C01/flags/compose"])
M("C01-subscribe-dup-true", "C01", [(OPS, '''        let (offset, len) = self.session.data.outbound.encode_packet(&Subscribe {
            packet_id,
            dup: false,''', '''        let (offset, len) = self.session.data.outbound.encode_packet(&Subscribe {
            packet_id,
            dup: topics.len() > 1,''')],
  ["C01/flags/value/Subscribe"])
M("C01-replay-skips-control", "C01", [(OUT, '''        for entry in &mut self.pending_control {
            entry.state = SendState::Write { written: 0 };
        }
        for entry in &mut self.retained {''', '''        for entry in &mut self.retained {''')],
  ["C01/replay/pending_control"])
M("C01-disconnect-no-latch", ["C01"], [(OPS, '''        // The transport is finished after a DISCONNECT regardless of the write outcome.
        self.handle_disconnect();
        result''', '''        // The transport is finished after a DISCONNECT regardless of the write outcome.
        if result.is_err() {
            self.handle_disconnect();
        }
        result''')],
  ["C01/last/write_all#1"])
M("C01-remaining-length-off", "C01", [(SER, '''            .checked_sub(MAX_FIXED_HEADER_SIZE)
            .ok_or(Error::InsufficientMemory)?;

        let mut buffer = VarintBuffer::new();''', '''            .checked_sub(MAX_FIXED_HEADER_SIZE - 1)
            .ok_or(Error::InsufficientMemory)?;

        let mut buffer = VarintBuffer::new();''')],
  ["C01/len/remaining-length"])
M("C01-flush-counts-as-fresh", "C01", [(OUT, '''        matches!(self, Self::Write { written: 0 })''', '''        matches!(self, Self::Write { written: 0 } | Self::Flush)''')],
  ["C01/class/fresh"])
M("C01-fresh-before-in-progress", "C01", [(OUT, '''        for in_progress in [true, false] {''', '''        for in_progress in [false, true] {''')],
  ["C01/priority/in-progress-first"])
M("C01-publish-finalized-as-pubrel", "C01", [(SER, '''            .finalize(MessageType::Publish, flags)''', '''            .finalize(MessageType::PubRel, flags)''')],
  ["C01/flags/finalize-args/encode_publish_with_offset"])
M("C01-slice-from-zero", "C01", [(SER, '''        Ok((offset, &self.buf[offset..self.index]))''', '''        Ok((offset, &self.buf[..self.index]))''')],
  ["C01/len/slice"])
M("C01-in-progress-needs-two-bytes", "C01", [(OUT, '''        matches!(self, Self::Write { written: 1.. } | Self::Flush)''', '''        matches!(self, Self::Write { written: 2.. } | Self::Flush)''')],
  ["C01/class/in-progress"])

ALLP = ["C01", "C02", "C03", "C11"]
RF("RF-validate-before-drain", ALLP, [(OPS, '''        self.flush_outbound().await?;

        let Publication {
            topic,
            properties,
            qos,
            payload,
            retain,
        } = publication;
        if !properties.valid_for(PropertyContext::Publish) {
            return Err(Error::InvalidRequest.into());
        }''', '''        let Publication {
            topic,
            properties,
            qos,
            payload,
            retain,
        } = publication;
        if !properties.valid_for(PropertyContext::Publish) {
            return Err(Error::InvalidRequest.into());
        }
        self.flush_outbound().await?;
''')])
RF("RF-inline-require-slot", ALLP, [(OPS, '''        self.flush_outbound().await?;
        self.require_retained_slot()?;

        let packet_id = self.session.data.next_packet_id();
        let (offset, len) = self.session.data.outbound.encode_packet(&Subscribe {''', '''        self.flush_outbound().await?;
        if self.session.data.outbound.retained_full() {
            return Err(Error::Resource(ResourceError::InflightExhausted));
        }

        let packet_id = self.session.data.next_packet_id();
        let (offset, len) = self.session.data.outbound.encode_packet(&Subscribe {''')])
RF("RF-log-text-and-arg", ALLP, [(INB, '''                debug!("Processed PUBCOMP packet_id={=u16}", comp.packet_id);''', '''                debug!(
                    "PUBCOMP done packet_id={=u16} quota={=u16}",
                    comp.packet_id, runtime.send_quota
                );''')])
RF("RF-matches-to-match", ALLP, [(OUT, '''        matches!(self, Self::Write { written: 0 })''', '''        match self {
            Self::Write { written } => written == 0,
            Self::Flush | Self::Sent => false,
        }''')])
RF("RF-rename-locals", ALLP, [(DRIVE, '''        let count = match write_current(&mut self.io, &bytes[written..]).await {
            Ok(count) => count,''', '''        let count = match write_current(&mut self.io, &bytes[written..]).await {
            Ok(accepted) => accepted,''')])
RF("RF-extract-write-helper", ALLP, [(OPS, '''        if let Err(err) = write_all(&mut self.io, packet).await {
            if matches!(err, Error::WriteZero) {''', '''        let write_result = write_all(&mut self.io, packet).await;
        if let Err(err) = write_result {
            if matches!(err, Error::WriteZero) {''')])
RF("RF-early-return-style", ALLP, [(DRIVE, '''        if let Err(err) = self.io.flush().await {
            warn!("Outbound packet flush failed: {}", err.kind());
            self.handle_disconnect();
            return Err(Error::Transport(err));
        }
        self.complete_flush(packet, now);
        Ok(())''', '''        match self.io.flush().await {
            Ok(()) => {
                self.complete_flush(packet, now);
                Ok(())
            }
            Err(err) => {
                warn!("Outbound packet flush failed: {}", err.kind());
                self.handle_disconnect();
                Err(Error::Transport(err))
            }
        }''')])

# ---------------------------------------------------------------------------------------------- C04
M("C04-puback-skipped-when-full", "C04", [(INB, '''                        let action = ControlAction::PubAck { packet_id, reason };
                        check_control_packet_size(runtime.maximum_packet_size, action)?;
                        self.outbound.queue_control(action)?;''', '''                        let action = ControlAction::PubAck { packet_id, reason };
                        check_control_packet_size(runtime.maximum_packet_size, action)?;
                        if !self.outbound.retained_full() {
                            self.outbound.queue_control(action)?;
                        }''')],
  ["C04/ack/PubAck"])
M("C04-record-even-if-duplicate", "C04", [(INB, '''                        let reason = if !duplicate {
                            self.pending_server_packet_ids''', '''                        let reason = if !duplicate || self.pending_server_packet_ids.len() < 2 {
                            self.pending_server_packet_ids''')],
  ["C04/once/record-if-new"])
M("C04-duplicate-delivered", "C04", [(INB, '''                        if duplicate || !reason.success() {''', '''                        if !reason.success() {''')],
  ["C04/once/deliver-implies-recorded"])
M("C04-pubcomp-reason-swapped", "C04", [(INB, '''                    self.pending_server_packet_ids.swap_remove(index);
                    ReasonCode::Success
                } else {
                    ReasonCode::PacketIdNotFound
                };''', '''                    self.pending_server_packet_ids.swap_remove(index);
                    ReasonCode::PacketIdNotFound
                } else {
                    ReasonCode::Success
                };''')],
  ["C04/rel/reason-table"])
M("C04-pubrel-does-not-forget", "C04", [(INB, '''                    self.pending_server_packet_ids.swap_remove(index);
                    ReasonCode::Success''', '''                    let _ = index;
                    ReasonCode::Success''')],
  ["C04/rel/forget"])
M("C04-puback-wrong-id", "C04", [(INB, '''                        let action = ControlAction::PubAck { packet_id, reason };''', '''                        let action = ControlAction::PubAck {
                            packet_id: packet_id | 1,
                            reason,
                        };''')],
  ["C04/ack/PubAck-id"])
M("C04-acks-encoded-in-arena", "C04", [(DRIVE, '''                    let packet = serialize_control_packet(
                        &mut small_buf,
                        step.action,''', '''                    let _ = &mut small_buf;
                    let packet = serialize_control_packet(
                        data.outbound.scratch_space(),
                        step.action,''')],
  ["C04/offarena/serialize_control_packet"])
M("C04-reset-keeps-pending-ids", "C04", [(STATE, '''        self.outbound.clear();
        self.pending_server_packet_ids.clear();''', '''        self.outbound.clear();''')],
  ["C04/reset/clears-pending-ids"])
M("C04-decode-whole-buffer", "C04", [(INB, '''ReceivedPacket::from_buffer(&buffer[..packet_length])
            .expect("inbound packet must remain decodable")''', '''ReceivedPacket::from_buffer(&buffer[..packet_length.max(2)])
            .expect("inbound packet must remain decodable")''')],
  ["C04/faithful/slice"])
M("C04-inbound-qos-forced", "C04", [(INB, '''            info.retain,
            info.qos,
        )''', '''            info.retain,
            info.qos.min(crate::QoS::AtLeastOnce),
        )''')],
  ["C04/faithful/fields"])
M("C04-deliver-on-false", "C04", [(INB, '''            Ok(true) => Ok(Some(packet_length)),
            Ok(false) => Ok(None),''', '''            Ok(true) => Ok(Some(packet_length)),
            Ok(false) if self.session.data.pending_server_packet_ids.is_full() => Ok(Some(packet_length)),
            Ok(false) => Ok(None),''')],
  ["C04/faithful/deliver-only-on-true"])
M("C04-pubrec-after-deliver-check", "C04", [(INB, '''                        check_control_packet_size(runtime.maximum_packet_size, action)?;
                        self.outbound.queue_control(action)?;
                        if duplicate || !reason.success() {''', '''                        check_control_packet_size(runtime.maximum_packet_size, action)?;
                        if !duplicate {
                            self.outbound.queue_control(action)?;
                        }
                        if duplicate || !reason.success() {''')],
  ["C04/ack/PubRec"])

# ---------------------------------------------------------------------------------------------- C05
M("C05-clean-start-always-false-after-first", "C05", [(HS, '''        let clean_start = !self.data.session_present;''', '''        let clean_start = !self.data.session_present && self.data.outbound.is_quiescent();''')],
  ["C05/wire/clean-start"])
M("C05-mark-before-properties", "C05", [(HS, '''        let local_quota = self.data.outbound.max_inflight();
        let mut send_quota = local_quota;''', '''        self.data.mark_session_present();
        let local_quota = self.data.outbound.max_inflight();
        let mut send_quota = local_quota;''')],
  ["C05/mark/after-properties"])
M("C05-reset-after-validation", "C05", [(HS, '''        let resumed = ack.session_present;
        if !resumed {
            debug!("Broker started a fresh session; resetting local session state");
            self.data.reset();
        }
''', '''        let resumed = ack.session_present;
'''), (HS, '''        self.runtime.session_resumed = resumed;''', '''        if !resumed {
            debug!("Broker started a fresh session; resetting local session state");
            self.data.reset();
        }
        self.runtime.session_resumed = resumed;''')],
  ["C05/reset/before-any-failure"])
M("C05-event-swapped", "C05", [(HS, '''        if resumed {
            info!("Connected and resumed existing broker session");
            Ok(ConnectEvent::Reconnected)''', '''        if !resumed {
            info!("Connected and resumed existing broker session");
            Ok(ConnectEvent::Reconnected)''')],
  ["C05/reset/event"])
M("C05-reset-keeps-generation", "C05", [(STATE, '''        self.generation = self.generation.wrapping_add(1);''', '''        self.generation = self.generation.wrapping_add(0);''')],
  ["C05/reset/bumps-generation"])
M("C05-reset-skips-outbound-clear", "C05", [(STATE, '''        self.packet_id = NonZeroU16::new(1).unwrap();
        self.outbound.clear();''', '''        self.packet_id = NonZeroU16::new(1).unwrap();''')],
  ["C05/reset/clears-outbound"])
M("C05-subscribe-id-before-drain", "C05", [(OPS, '''        self.flush_outbound().await?;
        self.require_retained_slot()?;

        let packet_id = self.session.data.next_packet_id();
        let (offset, len) = self.session.data.outbound.encode_packet(&Subscribe {''', '''        let packet_id = self.session.data.next_packet_id();
        self.flush_outbound().await?;
        self.require_retained_slot()?;

        let (offset, len) = self.session.data.outbound.encode_packet(&Subscribe {''')],
  ["C05/replay-first/subscribe"])
M("C05-client-id-from-config-only", "C05", [(HS, '''                    client_id: Utf8String(client_id.as_str()),''', '''                    client_id: Utf8String(if clean_start { client_id.as_str() } else { "" }),''')],
  ["C05/wire/client-id"])

# ---------------------------------------------------------------------------------------------- C06
M("C06-quota-on-any-nonzero-pubrec", "C06", [(INB, '''                        if rec.reason.code().failed() {''', '''                        if rec.reason.code() != ReasonCode::Success {''')],
  ["C06/inc/only-on-failure/PubRec"])
M("C06-pubcomp-no-quota", "C06", [(INB, '''                runtime.send_quota = runtime
                    .send_quota
                    .saturating_add(1)
                    .min(runtime.max_send_quota);
                debug!("Processed PUBCOMP packet_id={=u16}", comp.packet_id);''', '''                debug!("Processed PUBCOMP packet_id={=u16}", comp.packet_id);''')],
  ["C06/inc/complete/PubComp"])
M("C06-puback-quota-before-stale-check", "C06", [(INB, '''                if !self.outbound.ack_packet(ack.packet_id) {
                    debug!("Ignoring stale PUBACK for packet id {=u16}", ack.packet_id);
                    return Ok(false);
                }
                runtime.send_quota = runtime
                    .send_quota
                    .saturating_add(1)
                    .min(runtime.max_send_quota);''', '''                runtime.send_quota = runtime
                    .send_quota
                    .saturating_add(1)
                    .min(runtime.max_send_quota);
                if !self.outbound.ack_packet(ack.packet_id) {
                    debug!("Ignoring stale PUBACK for packet id {=u16}", ack.packet_id);
                    return Ok(false);
                }''')],
  ["C06/inc/after-removal/PubAck"])
M("C06-resume-ignores-inflight", "C06", [(HS, '''        self.runtime.send_quota =
            send_quota.saturating_sub(self.data.outbound.inflight_publishes());''', '''        self.runtime.send_quota = send_quota;''')],
  ["C06/resume/depends-on-inflight"])
M("C06-no-clamp", "C06", [(HS, '''                        send_quota = max.min(local_quota);
                        max_send_quota = max.min(local_quota);''', '''                        send_quota = max.min(local_quota);
                        max_send_quota = max;''')],
  ["C06/init/max-value"])
M("C06-dec-before-retain", "C06", [(OPS, '''            self.session
                .data
                .outbound
                .retain_packet(packet_id, offset, len)?;
            self.session.runtime.send_quota = self.session.runtime.send_quota.saturating_sub(1);''', '''            self.session.runtime.send_quota = self.session.runtime.send_quota.saturating_sub(1);
            self.session
                .data
                .outbound
                .retain_packet(packet_id, offset, len)?;''')],
  ["C06/dec/after-enqueue"])
M("C06-dec-after-flush", "C06", [(OPS, '''            self.session.runtime.send_quota = self.session.runtime.send_quota.saturating_sub(1);
            debug!(''', '''            debug!('''), (OPS, '''            self.flush_outbound().await?;
            let kind = if qos == QoS::ExactlyOnce {''', '''            self.flush_outbound().await?;
            self.session.runtime.send_quota = self.session.runtime.send_quota.saturating_sub(1);
            let kind = if qos == QoS::ExactlyOnce {''')],
  ["C06/dec/atomic"])
M("C06-gate-ignores-quota", "C06", [(SMOD, '''            self.runtime.send_quota != 0 && self.data.outbound.can_retain()''', '''            self.data.outbound.can_retain()''')],
  ["C06/gate/reads-quota"])
M("C06-suback-returns-quota", "C06", [(INB, '''                debug!("Processed SUBACK packet_id={=u16}", ack.packet_id);''', '''                debug!("Processed SUBACK packet_id={=u16}", ack.packet_id);
                runtime.send_quota = runtime
                    .send_quota
                    .saturating_add(1)
                    .min(runtime.max_send_quota);''')],
  ["C06/inc/arm/SubAck"])
M("C06-zero-receive-max-accepted", "C06", [(HS, '''                        if max == 0 {
                            return Err(PeerError::InvalidPacket);
                        }
''', '''''')],
  ["C06/init/zero-rejected"])
M("C06-inflight-counts-only-retained", "C06", [(OUT, '''        (publishes + self.pending_release.len()) as u16''', '''        publishes as u16''')],
  ["C06/resume/depends-on-inflight"])

# ---------------------------------------------------------------------------------------------- C07
M("C07-no-freshness-check", "C07", [(STATE, '''            if !self.outbound.has_retained(packet_id)
                && !self.outbound.has_pending_release(packet_id)
            {
                return packet_id;
            }''', '''            if !self.outbound.has_retained(packet_id) {
                return packet_id;
            }''')],
  ["C07/fresh/pending_release"])
M("C07-freshness-checks-next-id", "C07", [(STATE, '''            if !self.outbound.has_retained(packet_id)
                && !self.outbound.has_pending_release(packet_id)''', '''            if !self.outbound.has_retained(self.packet_id.get())
                && !self.outbound.has_pending_release(packet_id)''')],
  ["C07/fresh/retained"])
M("C07-handle-records-other-id", "C07", [(OPS, '''        Ok(Op::new(
            OpKind::Unsubscribe,
            packet_id,''', '''        Ok(Op::new(
            OpKind::Unsubscribe,
            packet_id.wrapping_sub(1).max(1),''')],
  ["C07/src/unsubscribe/handle"])
M("C07-publish-retains-under-zero", "C07", [(OPS, '''                .retain_packet(packet_id, offset, len)?;
            self.session.runtime.send_quota''', '''                .retain_packet(packet_id & 0x7fff, offset, len)?;
            self.session.runtime.send_quota''')],
  ["C07/src/publish/enqueue"])

# ---------------------------------------------------------------------------------------------- C13
M("C13-record-progress-after-flush", "C13", [(DRIVE, '''        let written = written + count;
        self.set_written(packet, written, len);
        if written < len {
            return Ok(true);
        }
        self.flush_current(packet, now).await?;
        Ok(true)''', '''        let written = written + count;
        if written < len {
            self.set_written(packet, written, len);
            return Ok(true);
        }
        self.flush_current(packet, now).await?;
        self.set_written(packet, written, len);
        Ok(true)''')],
  ["C13/progress/perform_outbound_step/write_current#1"])
M("C13-reader-commits-after-loop", "C13", [(DRIVE, '''    while !packet_reader.packet_available() {
        let buffer = packet_reader.receive_buffer()?;
        if buffer.is_empty() {
            break;
        }
''', '''    let mut pending = 0;
    while !packet_reader.packet_available() {
        let buffer = packet_reader.receive_buffer()?;
        if buffer.is_empty() || pending > 0 {
            break;
        }
'''), (DRIVE, '''        packet_reader.commit(count);
        trace!("Read {=usize} transport bytes", count);
    }
''', '''        pending += count;
        trace!("Read {=usize} transport bytes", count);
    }
    packet_reader.commit(pending);
''')],
  ["C13/progress/read_packet/fill_packet_reader#1"])
M("C13-await-between-id-and-retain", "C13", [(OPS, '''        let packet_id = self.session.data.next_packet_id();
        let (offset, len) = self.session.data.outbound.encode_packet(&Unsubscribe {''', '''        let packet_id = self.session.data.next_packet_id();
        self.flush_outbound().await?;
        let (offset, len) = self.session.data.outbound.encode_packet(&Unsubscribe {''')],
  ["C13/atomic/unsubscribe"])
M("C13-set-written-clamps", "C13", [(OUT, '''            Self::Write { written }
        };''', '''            Self::Write {
                written: written.saturating_sub(1),
            }
        };''')],
  ["C13/store/set_written"])
M("C13-setter-swaps-args", "C13", [(OUT, '''            .find(|entry| entry.packet_id == packet_id)
        {
            entry.state.set_written(written, len);
            true
        } else {
            false
        }
    }

    pub(super) fn flush_retained''', '''            .find(|entry| entry.packet_id == packet_id)
        {
            entry.state.set_written(len, written);
            true
        } else {
            false
        }
    }

    pub(super) fn flush_retained''')],
  ["C13/store/set_retained_written"])
M("C13-subscribe-writes-before-retain", "C13", [(OPS, '''        self.session.runtime.require_packet_size(len)?;
        self.session
            .data
            .outbound
            .retain_packet(packet_id, offset, len)?;
        debug!(
            "Enqueued SUBSCRIBE packet_id={=u16} len={=usize} tx_used={=usize}",''', '''        self.session.runtime.require_packet_size(len)?;
        self.flush_outbound().await?;
        self.session
            .data
            .outbound
            .retain_packet(packet_id, offset, len)?;
        debug!(
            "Enqueued SUBSCRIBE packet_id={=u16} len={=usize} tx_used={=usize}",''')],
  ["C13/enq/subscribe/enqueue-atomic"])
M("C13-step-overcounts", "C13", [(DRIVE, '''        let written = written + count;
        self.set_written(packet, written, len);''', '''        let written = written + count.max(1);
        self.set_written(packet, written, len);''')],
  ["C13/store/step-accumulates"])

# ---------------------------------------------------------------------------------------------- C12
READER_RS = "src/de/packet_reader.rs"
M("C12-connect-skips-reader-reset", "C12", [(HS, '''        self.packet_reader.reset();
        self.runtime.reset_transport();
        self.data.outbound.arm_replay();
        let event''', '''        self.runtime.reset_transport();
        self.data.outbound.arm_replay();
        let event''')],
  ["C12/reset/reader-before-handshake"])
M("C12-connect-rearm-only-if-resumed", "C12", [(HS, '''        self.data.outbound.arm_replay();
        let event''', '''        if self.data.session_present {
            self.data.outbound.arm_replay();
        }
        let event''')],
  ["C12/reset/send-progress-before-handshake"])
M("C12-reader-reset-keeps-length", "C12", [(READER_RS, '''        self.read_bytes = 0;
        self.packet_length = None;
    }''', '''        self.read_bytes = 0;
    }''')],
  ["C12/ANCHOR-LOST/reset/reader-reset"])
M("C12-connect-refuses-when-busy", "C12", [(HS, '''        self.packet_reader.reset();
        self.runtime.reset_transport();''', '''        if self.runtime.ping_timeout.is_some() && self.data.outbound.retained_full() {
            return Err(Error::NotReady);
        }
        self.packet_reader.reset();
        self.runtime.reset_transport();''')],
  ["C12/first/no-early-failure"])
M("C12-connect-timers-not-reset", "C12", [(HS, '''        self.packet_reader.reset();
        self.runtime.reset_transport();
        self.data.outbound.arm_replay();
        let event''', '''        self.packet_reader.reset();
        self.data.outbound.arm_replay();
        let event''')],
  ["C12/reset/timers-before-handshake"])

# ---------------------------------------------------------------------------------------------- C14
M("C14-predicate-ge", "C14", [(STATE, '''            .is_some_and(|max| len > max as usize)''', '''            .is_some_and(|max| len >= max as usize)''')],
  ["C14/pred/form/require_packet_size@RuntimeState"])
M("C14-subscribe-retain-before-size-check", "C14", [(OPS, '''        self.session.runtime.require_packet_size(len)?;
        self.session
            .data
            .outbound
            .retain_packet(packet_id, offset, len)?;
        debug!(
            "Enqueued SUBSCRIBE packet_id={=u16} len={=usize} tx_used={=usize}",''', '''        self.session
            .data
            .outbound
            .retain_packet(packet_id, offset, len)?;
        self.session.runtime.require_packet_size(len)?;
        debug!(
            "Enqueued SUBSCRIBE packet_id={=u16} len={=usize} tx_used={=usize}",''')],
  ["C14/tx/enqueue/subscribe"])
M("C14-disconnect-no-size-check", "C14", [(OPS, '''        let packet = MqttSerializer::encode(&mut buffer, &disconnect)?;
        self.session.runtime.require_packet_size(packet.len())?;''', '''        let packet = MqttSerializer::encode(&mut buffer, &disconnect)?;''')],
  ["C14/tx/disconnect_with/write_all#1"])
M("C14-puback-no-precheck", "C14", [(INB, '''                        let action = ControlAction::PubAck { packet_id, reason };
                        check_control_packet_size(runtime.maximum_packet_size, action)?;''', '''                        let action = ControlAction::PubAck { packet_id, reason };''')],
  ["C14/tx/precheck/handle_packet#3"])
M("C14-advertise-half-buffer", "C14", [(HS, '''            Property::MaximumPacketSize(self.packet_reader.buffer.len() as u32),''', '''            Property::MaximumPacketSize((self.packet_reader.buffer.len() / 2) as u32),''')],
  ["C14/adv/connect-property"])
M("C14-rx-window-off-by-one", "C14", [(READER_RS, '''        if end <= self.buffer.len() {''', '''        if end <= self.buffer.len() + 1 {''')],
  ["C14/rx/window"])
M("C14-retained-replay-skips-check", "C14", [(DRIVE, '''                    runtime.require_packet_size(step.len)?;
                    PreparedStep::Write(WriteStep {''', '''                    PreparedStep::Write(WriteStep {''')],
  ["C14/tx/perform_outbound_step/write_current#1"])
M("C14-size-check-wrong-length", "C14", [(OPS, '''        })?;
        self.session.runtime.require_packet_size(len)?;
        self.session
            .data
            .outbound
            .retain_packet(packet_id, offset, len)?;
        debug!(
            "Enqueued UNSUBSCRIBE''', '''        })?;
        self.session.runtime.require_packet_size(len - offset.min(len))?;
        self.session
            .data
            .outbound
            .retain_packet(packet_id, offset, len)?;
        debug!(
            "Enqueued UNSUBSCRIBE''')],
  ["C14/tx/enqueue-length/unsubscribe"])
M("C14-limit-from-config", "C14", [(HS, '''        self.runtime.maximum_packet_size = maximum_packet_size;''', '''        self.runtime.maximum_packet_size = maximum_packet_size.or(self.runtime.maximum_packet_size);''')],
  ["C14/adv/limit-writer/connect_handshake"])

# ---------------------------------------------------------------------------------------------- C09
PKT = "src/packets.rs"
TYPES = "src/types.rs"
VARINT = "src/varint.rs"
WILL = "src/will.rs"
M("C09-size-u32-as-2", "C09", [(PROPS, '''            | Property::MaximumPacketSize(_) => 4 + identifier_length,''', '''            | Property::MaximumPacketSize(_) => 2 + identifier_length,''')],
  ["C09/props/size/MaximumPacketSize"])
M("C09-topic-alias-written-as-u8", "C09", [(PROPS, '''            Property::TopicAlias(data) => serializer.serialize_element(data)?,''', '''            Property::TopicAlias(data) => serializer.serialize_element(&(*data as u8))?,''')],
  ["C09/props/write/TopicAlias"])
M("C09-identifier-value-swapped", "C09", [(PROPS, '''    ResponseTopic = 0x08,
    CorrelationData = 0x09,''', '''    ResponseTopic = 0x09,
    CorrelationData = 0x08,''')],
  ["C09/props/id/ResponseTopic"])
M("C09-from-table-wrong-row", "C09", [(PROPS, '''            Property::RequestProblemInformation(_) => PropertyIdentifier::RequestProblemInformation,''', '''            Property::RequestProblemInformation(_) => PropertyIdentifier::RequestResponseInformation,''')],
  ["C09/props/id/RequestProblemInformation"])
M("C09-read-server-keepalive-as-u32", "C09", [(PROPS, '''            PropertyIdentifier::ServerKeepAlive => {
                Property::ServerKeepAlive(variant.newtype_variant()?)''', '''            PropertyIdentifier::ServerKeepAlive => {
                Property::ServerKeepAlive(variant.newtype_variant::<u32>()? as u16)''')],
  ["C09/props/read/ServerKeepAlive"])
M("C09-user-property-size-one-prefix", "C09", [(PROPS, '''                (value.len() + 2) + (key.len() + 2) + identifier_length''', '''                (value.len() + 2) + key.len() + identifier_length''')],
  ["C09/props/size/UserProperty"])
M("C09-with-correlation-size-forgets-user-props", "C09", [(PROPS, '''            } => properties
                .iter()
                .chain([correlation.clone()].iter())
                .map(|prop| prop.size())
                .sum(),''', '''            } => {
                let _ = properties;
                correlation.size()
            }''')],
  ["C09/block/size/WithCorrelation"])
M("C09-encoded-len-branch-free", "C09", [(VARINT, '''        match self.0 {
            0..=0x7F => 1,
            0x80..=0x3FFF => 2,
            0x4000..=0x1F_FFFF => 3,
            _ => 4,
        }''', '''        let significant_bits = (u32::BITS - self.0.leading_zeros()) as usize;
        significant_bits / 7 + 1''')],
  ["C09/varint/encoded-len"])
M("C09-encoded-len-boundary", "C09", [(VARINT, '''            0x80..=0x3FFF => 2,
            0x4000..=0x1F_FFFF => 3,''', '''            0x80..=0x7FFF => 2,
            0x8000..=0x1F_FFFF => 3,''')],
  ["C09/varint/encoded-len"])
M("C09-will-retain-bit", "C09", [(PKT, '''                flags |= 1 << 5;''', '''                flags |= 1 << 4;''')],
  ["C09/bits/connect/will-retain"])
M("C09-password-flag-without-auth-guard", "C09", [(PKT, '''        if self.auth.is_some() {
            flags |= 1 << 6;
            flags |= 1 << 7;
        }''', '''        if self.auth.is_some() {
            flags |= 1 << 7;
        }
        flags |= 1 << 6;''')],
  ["C09/bits/connect/password-flag"])
M("C09-no-local-bit", "C09", [(TYPES, '''            value |= 1 << 2;''', '''            value |= 1 << 1;''')],
  ["C09/bits/suboptions/no-local"])
M("C09-retain-handling-shift", "C09", [(TYPES, '''        value |= (self.retain_behavior as u8) << 4;''', '''        value |= (self.retain_behavior as u8) << 5;''')],
  ["C09/bits/suboptions/retain handling"])
M("C09-connect-order", "C09", [(PKT, '''        item.serialize_field("keep_alive", &self.keepalive)?;
        item.serialize_field("properties", &self.properties)?;
        item.serialize_field("client_id", &self.client_id)?;''', '''        item.serialize_field("keep_alive", &self.keepalive)?;
        item.serialize_field("client_id", &self.client_id)?;
        item.serialize_field("properties", &self.properties)?;''')],
  ["C09/connect/order/Connect"])
M("C09-will-order", "C09", [(WILL, '''        item.serialize_field("topic", &Utf8String(self.topic.as_str()))?;
        item.serialize_field("data", &BinaryData(self.data))?;''', '''        item.serialize_field("data", &BinaryData(self.data))?;
        item.serialize_field("topic", &Utf8String(self.topic.as_str()))?;''')],
  ["C09/connect/order/Will"])
M("C09-subscribe-field-order", "C09", [(PKT, '''pub(crate) struct Subscribe<'a> {
    pub(crate) packet_id: u16,
    #[serde(skip)]
    pub(crate) dup: bool,
    pub(crate) properties: Properties<'a>,
    pub(crate) topics: &'a [TopicFilter<'a>],
}''', '''pub(crate) struct Subscribe<'a> {
    pub(crate) properties: Properties<'a>,
    pub(crate) packet_id: u16,
    #[serde(skip)]
    pub(crate) dup: bool,
    pub(crate) topics: &'a [TopicFilter<'a>],
}''')],
  ["C09/connect/order/Subscribe"])
M("C09-string-length-cast", "C09", [(WIRE, '''        let len = u16::try_from(self.0.len())
            .map_err(|_| S::Error::custom("Provided string is too long"))?;''', '''        let len = self.0.len() as u16;''')],
  ["C09/len16/Utf8String"])
M("C09-keepalive-millis", "C09", [(HS, '''        let keepalive = self.runtime.keepalive_interval.as_secs() as u16;''', '''        let keepalive = self.runtime.keepalive_interval.as_millis() as u16;''')],
  ["C09/connect/keepalive"])
M("C09-session-expiry-dropped", "C09", [(HS, '''            Property::SessionExpiryInterval(self.session_expiry_interval),''', '''            Property::SessionExpiryInterval(if self.data.session_present { self.session_expiry_interval } else { 0 }),''')],
  ["C09/connect/session-expiry"])
M("C09-publish-dup-bit", "C09", [(WIRE, '''        if self.dup {
            flags |= 1 << 3;
        }
        flags''', '''        if self.dup {
            flags |= 1 << 2;
        }
        flags''')],
  ["C09/bits/publish/dup"])

# ---------------------------------------------------------------------------------------------- C19
M("C19-will-delay-rejected", "C19", [(PROPS, '''                | (PropertyContext::Will, PropertyIdentifier::WillDelayInterval)
''', '''''')],
  ["C19/table/Will/WillDelayInterval"])
M("C19-topic-alias-zero-accepted", "C19", [(PROPS, '''            Property::TopicAlias(value) => *value != 0,
''', '''''')],
  ["C19/value/TopicAlias"])
M("C19-server-reference-on-publish", "C19", [(PROPS, '''            ) | (PropertyContext::Publish, PropertyIdentifier::TopicAlias)''', '''            ) | (
                PropertyContext::Publish,
                PropertyIdentifier::TopicAlias | PropertyIdentifier::ServerReference,
            )''')],
  ["C19/table/Publish/ServerReference"])
M("C19-publish-wrong-context", "C19", [(OPS, '''        if !properties.valid_for(PropertyContext::Publish) {''', '''        if !properties.valid_for(PropertyContext::Will) {''')],
  ["C19/order/publish/context"])
M("C19-subscribe-validates-late", "C19", [(OPS, '''        if !Properties::from_slice(properties).valid_for(PropertyContext::Subscribe) {
            return Err(Error::InvalidRequest);
        }
        self.flush_outbound().await?;
        self.require_retained_slot()?;

        let packet_id = self.session.data.next_packet_id();''', '''        self.flush_outbound().await?;
        self.require_retained_slot()?;

        let packet_id = self.session.data.next_packet_id();
        if !Properties::from_slice(properties).valid_for(PropertyContext::Subscribe) {
            return Err(Error::InvalidRequest);
        }''')],
  ["C19/order/subscribe/validate-first"])
M("C19-payload-format-two", "C19", [(PROPS, '''            | Property::SharedSubscriptionAvailable(value) => *value <= 1,''', '''            | Property::SharedSubscriptionAvailable(value) => *value <= 2,''')],
  ["C19/value/PayloadFormatIndicator"])
M("C19-subscription-id-zero", "C19", [(PROPS, '''            Property::SubscriptionIdentifier(value) => (1..=MQTT_VARINT_MAX).contains(value),''', '''            Property::SubscriptionIdentifier(value) => (0..=MQTT_VARINT_MAX).contains(value),''')],
  ["C19/value/SubscriptionIdentifier"])
M("C19-header-requested-qos", "C19", [(OPS, '''        let qos = match self.session.runtime.max_qos {
            Some(max_qos) if self.session.downgrade_qos && qos > max_qos => max_qos,
            _ => qos,
        };
        let packet_id = (qos > QoS::AtMostOnce).then(|| self.session.data.next_packet_id());''', '''        let requested = qos;
        let qos = match self.session.runtime.max_qos {
            Some(max_qos) if self.session.downgrade_qos && qos > max_qos => max_qos,
            _ => qos,
        };
        let packet_id = (requested > QoS::AtMostOnce).then(|| self.session.data.next_packet_id());''')],
  ["C19/qos/identifier-decision"])
M("C19-unsubscribe-empty-accepted", "C19", [(OPS, '''        if topics.is_empty() {
            return Err(Error::InvalidRequest);
        }
        if !Properties::from_slice(properties).valid_for(PropertyContext::Unsubscribe) {''', '''        if !Properties::from_slice(properties).valid_for(PropertyContext::Unsubscribe) {''')],
  ["C19/order/unsubscribe/empty-list"])
M("C19-valid-for-skips-user-props", "C19", [(PROPS, '''        self.iter()
            .all(|property| property.is_ok_and(|property| property.is_valid_for(context)))''', '''        match &self.inner {
            PropertiesData::Slice(props) => props.iter().all(|p| p.is_valid_for(context)),
            PropertiesData::WithCorrelation { correlation, .. } => correlation.is_valid_for(context),
            PropertiesData::Encoded(_) => self
                .iter()
                .all(|property| property.is_ok_and(|property| property.is_valid_for(context))),
        }''')],
  ["C19/coverage/valid_for/WithCorrelation"])
M("C19-downgrade-always", "C19", [(OPS, '''            Some(max_qos) if self.session.downgrade_qos && qos > max_qos => max_qos,''', '''            Some(max_qos) if qos > max_qos => max_qos,''')],
  ["C19/qos/downgrade-guard"])
M("C19-will-validated-as-publish", "C19", [(WILL, '''        if !property.is_valid_for(PropertyContext::Will) {''', '''        if !property.is_valid_for(PropertyContext::Publish) {''')],
  ["C19/order/will/context"])

# ---------------------------------------------------------------------------------------------- C20
MCMOD = "src/mqtt_client/mod.rs"
PUB = "src/publication.rs"
M("C20-shared-iterator", "C20", [(MCMOD, '''        Some(ResponseTarget {
            topic: self.response_topic()?,
            correlation_data: self.correlation_data(),
        })''', '''        let mut iter = self.properties.iter();
        let topic = iter.find_map(|prop| match prop {
            Ok(crate::Property::ResponseTopic(topic)) => Some(topic),
            _ => None,
        })?;
        let correlation_data = iter.find_map(|prop| match prop {
            Ok(crate::Property::CorrelationData(data)) => Some(data),
            _ => None,
        });
        Some(ResponseTarget {
            topic,
            correlation_data,
        })''')],
  ["C20/target/correlation"])
M("C20-reply-to-own-topic", "C20", [(MCMOD, '''        Some(ResponseTarget {
            topic: self.response_topic()?,''', '''        self.response_topic()?;
        Some(ResponseTarget {
            topic: self.topic,''')],
  ["C20/target/topic"])
M("C20-with-properties-drops-correlation", "C20", [(PROPS, '''            PropertiesData::WithCorrelation { correlation, .. } => Self {
                inner: PropertiesData::WithCorrelation {
                    correlation,
                    properties,
                },
            },
            PropertiesData::Slice(_) | PropertiesData::Encoded(_) => Self::from_slice(properties),''', '''            PropertiesData::WithCorrelation { correlation, .. } if properties.is_empty() => Self {
                inner: PropertiesData::WithCorrelation {
                    correlation,
                    properties,
                },
            },
            _ => Self::from_slice(properties),''')],
  ["C20/publication/with_properties-keeps-correlation"])
M("C20-owned-truncates-correlation", "C20", [(PUB, '''            correlation_data: self
                .correlation_data
                .map(Vec::try_from)
                .transpose()
                .map_err(|_| ResourceError::BufferTooSmall)?,''', '''            correlation_data: self
                .correlation_data
                .map(|data| Vec::try_from(&data[..data.len().min(CORRELATION)]))
                .transpose()
                .map_err(|_| ResourceError::BufferTooSmall)?,''')],
  ["C20/owned/no-truncation"])
M("C20-first-correlation-ignores-errors-wrongly", "C20", [(PROPS, '''    pub fn correlation_data(&'a self) -> Option<&'a [u8]> {
        self.iter().find_map(|prop| match prop {
            Ok(Property::CorrelationData(data)) => Some(data),
            _ => None,
        })
    }''', '''    pub fn correlation_data(&'a self) -> Option<&'a [u8]> {
        self.iter().find_map(|prop| match prop {
            Ok(Property::CorrelationData(data)) => Some(data),
            Ok(Property::AuthenticationData(data)) => Some(data),
            _ => None,
        })
    }''')],
  ["C20/lookup/correlation_data/payload"])
M("C20-owned-publication-skips-correlation", "C20", [(PUB, '''        let mut publication = Publication::new(self.topic.as_str(), payload);
        if let Some(data) = self.correlation_data.as_deref() {
            publication = publication.correlate(data);
        }
        publication''', '''        let mut publication = Publication::new(self.topic.as_str(), payload);
        if let Some(data) = self.correlation_data.as_deref() {
            if !data.is_empty() {
                publication = publication.correlate(data);
            }
        }
        publication''')],
  ["C20/publication/OwnedResponseTarget/correlation"])

# ---------------------------------------------------------------------------------------------- C18
M("C18-qos2-ignores-release-list", "C18", [(SMOD, '''            OpKind::PublishExactlyOnce => {
                self.data.outbound.has_retained(op.packet_id)
                    || self.data.outbound.has_pending_release(op.packet_id)
            }''', '''            OpKind::PublishExactlyOnce => self.data.outbound.has_retained(op.packet_id),''')],
  ["C18/status/table"])
M("C18-generation-checked-last", "C18", [(SMOD, '''        if op.generation != self.data.generation() {
            return OpStatus::Invalidated;
        }

        let pending = match op.kind {''', '''        let pending = match op.kind {'''), (SMOD, '''        if pending {
            OpStatus::Pending
        } else {
            OpStatus::Complete
        }''', '''        if pending {
            OpStatus::Pending
        } else if op.generation != self.data.generation() {
            OpStatus::Invalidated
        } else {
            OpStatus::Complete
        }''')],
  ["C18/status/table"])
M("C18-subscribe-handle-kind", "C18", [(OPS, '''        Ok(Op::new(
            OpKind::Subscribe,''', '''        Ok(Op::new(
            OpKind::Unsubscribe,''')],
  ["C18/handle/subscribe/kind"])
M("C18-suback-reason-swallowed", "C18", [(INB, '''                debug!("Processed SUBACK packet_id={=u16}", ack.packet_id);
                for &code in ack.codes {
                    ReasonCode::from(code).as_result()?;
                }''', '''                debug!("Processed SUBACK packet_id={=u16}", ack.packet_id);
                for &code in ack.codes {
                    let _ = ReasonCode::from(code).as_result();
                }''')],
  ["C18/final-ack/SubAck/remove-then-report"])
M("C18-puback-reason-before-removal", "C18", [(INB, '''                if !self.outbound.ack_packet(ack.packet_id) {
                    debug!("Ignoring stale PUBACK for packet id {=u16}", ack.packet_id);
                    return Ok(false);
                }''', '''                ack.reason.code().as_result()?;
                if !self.outbound.ack_packet(ack.packet_id) {
                    debug!("Ignoring stale PUBACK for packet id {=u16}", ack.packet_id);
                    return Ok(false);
                }''')],
  ["C18/final-ack/PubAck/remove-then-report"])
M("C18-rejected-swallowed", "C18", [(INB, '''            Err(Error::Peer(err)) => Err(Error::Peer(err)),''', '''            Err(Error::Peer(_)) => Ok(None),''')],
  ["C18/final-ack/rejected-surfaced"])
M("C18-pubrec-reason-after-release", "C18", [(INB, '''                rec.reason.code().as_result()?;
                if queue_release {
                    check_pubrel_size(
                        runtime.maximum_packet_size,
                        rec.packet_id,
                        ReasonCode::Success,
                    )?;
                    self.outbound
                        .queue_release(rec.packet_id, ReasonCode::Success)?;
                    debug!("Queued PUBREL for packet_id={=u16}", rec.packet_id);
                }''', '''                if queue_release {
                    check_pubrel_size(
                        runtime.maximum_packet_size,
                        rec.packet_id,
                        ReasonCode::Success,
                    )?;
                    self.outbound
                        .queue_release(rec.packet_id, ReasonCode::Success)?;
                    debug!("Queued PUBREL for packet_id={=u16}", rec.packet_id);
                }
                rec.reason.code().as_result()?;''')],
  ["C18/final-ack/PubRec/failure-completes"])
M("C18-handle-stale-generation", "C18", [(OPS, '''        Ok(Op::new(
            OpKind::Unsubscribe,
            packet_id,
            self.session.data.generation(),
        ))''', '''        Ok(Op::new(OpKind::Unsubscribe, packet_id, 0))''')],
  ["C18/handle/unsubscribe/generation"])
M("C18-has-retained-compares-offset", "C18", [(OUT, '''    pub(super) fn has_retained(&self, packet_id: u16) -> bool {
        self.retained
            .iter()
            .any(|entry| entry.packet_id == packet_id)
    }''', '''    pub(super) fn has_retained(&self, packet_id: u16) -> bool {
        self.retained
            .iter()
            .any(|entry| entry.packet_id >= packet_id)
    }''')],
  ["C18/status/lookup/has_retained"])

# ---------------------------------------------------------------------------------------------- C17
M("C17-scratch-without-compact", "C17", [(OUT, '''    pub(super) fn scratch_space(&mut self) -> &mut [u8] {
        self.compact();
        &mut self.buf[self.used..]
    }''', '''    pub(super) fn scratch_space(&mut self) -> &mut [u8] {
        let start = self.used_after_compact();
        &mut self.buf[start..]
    }''')],
  ["C17/base/scratch_space"])
M("C17-encode-at-compacted-size", "C17", [(OUT, '''        self.compact();
        let start = self.used;
        let (offset, packet) = MqttSerializer::encode_with_offset(&mut self.buf[start..], packet)?;''', '''        let start = self.used_after_compact();
        let (offset, packet) = MqttSerializer::encode_with_offset(&mut self.buf[start..], packet)?;''')],
  ["C17/base/encode_packet"])
M("C17-dup-patch-at-wrong-byte", "C17", [(OUT, '''            self.buf[entry.offset] |= 1 << 3;''', '''            self.buf[entry.offset + entry.len - 1] |= 1 << 3;''')],
  ["C17/patch/shape"])
M("C17-compact-copies-len-minus-one", "C17", [(OUT, '''                    .copy_within(entry.offset..entry.offset + entry.len, cursor);''', '''                    .copy_within(entry.offset..entry.offset + entry.len - 1, cursor);''')],
  ["C17/compact/copy"])
M("C17-compact-forgets-offset", "C17", [(OUT, '''                entry.offset = cursor;
                moved += 1;''', '''                moved += 1;''')],
  ["C17/compact/bookkeeping"])
M("C17-retain-wrong-offset", "C17", [(OPS, '''            .retain_packet(packet_id, offset, len)?;
        debug!(
            "Enqueued UNSUBSCRIBE''', '''            .retain_packet(packet_id, offset.saturating_sub(1), len)?;
        debug!(
            "Enqueued UNSUBSCRIBE''')],
  ["C17/wire/unsubscribe/offset-len"])
M("C17-used-not-raised", "C17", [(OUT, '''        self.used = self.used.max(offset + len);
        Ok(())''', '''        self.used = offset + len - 1;
        Ok(())''')],
  ["C17/used/writer/retain_packet"])
M("C17-encoder-relative-offset", "C17", [(OUT, '''        let (offset, packet) = MqttSerializer::encode_with_offset(&mut self.buf[start..], packet)?;
        Ok((start + offset, packet.len()))''', '''        let (offset, packet) = MqttSerializer::encode_with_offset(&mut self.buf[start..], packet)?;
        Ok((offset, packet.len()))''')],
  ["C17/wire/encoder/encode_packet"])
M("C17-clear-keeps-used", "C17", [(OUT, '''    pub(super) fn clear(&mut self) {
        self.used = 0;''', '''    pub(super) fn clear(&mut self) {''')],
  ["C17/used/writer/FLOOR"])
M("C17-scratch-len-uses-watermark", "C17", [(OUT, '''        self.buf.len().saturating_sub(self.used_after_compact())''', '''        self.buf.len().saturating_sub(self.used)''')],
  ["C17/used/free-space/scratch_len"])
M("C17-retained-slice-short", "C17", [(OUT, '''        &self.buf[offset..offset + len]''', '''        &self.buf[offset..offset + len - 1]''')],
  ["C17/wire/retained-slice"])
M("C17-compact-reverse", "C17", [(OUT, '''        for entry in self.retained.iter_mut() {
            if entry.offset != cursor {''', '''        for entry in self.retained.iter_mut().rev() {
            if entry.offset != cursor {''')],
  ["C17/compact/in-order"])

# ---------------------------------------------------------------------------------------------- C10
M("C10-ping-suppressed-while-inflight", "C10", [(DRIVE, '''            && !self.session.data.outbound.has_pending_pingreq()
    }''', '''            && self.session.data.outbound.is_quiescent()
    }''')],
  ["C10/due/depends-only-on-keepalive-state"])
M("C10-timeout-armed-for-every-control", "C10", [(DRIVE, '''        if matches!(packet, FlushedPacket::Control(ControlAction::PingReq)) {''', '''        if matches!(packet, FlushedPacket::Control(_)) {''')],
  ["C10/who/ping-timeout-armed/only-for-pingreq"])
M("C10-qos0-does-not-refresh", "C10", [(OPS, '''        self.session.runtime.note_outbound_activity(Instant::now());

        Ok(None)''', '''        Ok(None)''')],
  ["C10/refresh/publish"])
M("C10-expiry-checked-after-step", "C10", [(DRIVE, '''        let runtime = &mut self.session.runtime;
        if runtime
            .ping_timeout
            .map(|deadline| now >= deadline)
            .unwrap_or(false)
        {''', '''        let advanced = self.service_outbound_once(now).await?;
        let runtime = &mut self.session.runtime;
        if runtime
            .ping_timeout
            .map(|deadline| now >= deadline)
            .unwrap_or(false)
        {'''), (DRIVE, '''            return Err(Error::Disconnected);
        }
        self.service_outbound_once(now).await
    }''', '''            return Err(Error::Disconnected);
        }
        Ok(advanced)
    }''')],
  ["C10/check/expiry-first"])
M("C10-next-deadline-prefers-ping", "C10", [(STATE, '''            (Some(next_ping), Some(ping_timeout)) => Some(next_ping.min(ping_timeout)),''', '''            (Some(next_ping), Some(_)) => Some(next_ping),''')],
  ["C10/race/next-deadline-table"])
M("C10-inbound-publish-clears-timeout", "C10", [(INB, '''                match info.qos {
                    QoS::AtMostOnce => {}''', '''                match info.qos {
                    QoS::AtMostOnce => {
                        runtime.ping_timeout = None;
                    }''')],
  ["C10/who/ping-timeout-cleared/handle_packet"])
M("C10-pingresp-clears-only-if-due", "C10", [(INB, '''                trace!("Received PINGRESP");
                runtime.ping_timeout = None;''', '''                trace!("Received PINGRESP");
                if runtime.next_ping.is_some() {
                    runtime.ping_timeout = None;
                }''')],
  ["C10/who/pingresp-clears"])
M("C10-read-not-raced", "C10", [(DRIVE, '''                Some(deadline) => match with_deadline(deadline, read).await {
                    Ok(Ok(())) => {}
                    Ok(Err(err)) => return Err(err),
                    Err(_) => continue,
                },
                None => read.await?,''', '''                Some(deadline) if self_has_ping(deadline) => match with_deadline(deadline, read).await {
                    Ok(Ok(())) => {}
                    Ok(Err(err)) => return Err(err),
                    Err(_) => continue,
                },
                _ => read.await?,'''), (DRIVE, '''async fn write_current<C: Io>(''', '''fn self_has_ping(deadline: Instant) -> bool {
    deadline.as_millis() % 2 == 0
}

async fn write_current<C: Io>(''')],
  ["C10/race/unbounded-only-without-deadline"])
M("C10-zero-keepalive-pings", "C10", [(STATE, '''        if keepalive_ms == 0 {
            return None;
        }
''', '''''')],
  ["C10/const/zero-disables"])
M("C10-server-keepalive-ignored", "C10", [(HS, '''        self.runtime.keepalive_interval = keepalive_interval;''', '''        let _ = keepalive_interval;''')],
  ["C10/const/server-keepalive"])
M("C10-timeout-from-different-constant", "C10", [(DRIVE, '''            runtime.ping_timeout = Some(now + Duration::from_millis(ROUND_TRIP_TIMEOUT_MS));''', '''            runtime.ping_timeout = Some(now + Duration::from_millis(2 * ROUND_TRIP_TIMEOUT_MS));''')],
  ["C10/who/ping-timeout-armed/complete_flush"])

# ---------------------------------------------------------------------------------------------- C15
M("C15-lookahead-two-bytes", "C15", [(READER_RS, '''            self.read_bytes + 1
        };''', '''            self.read_bytes + 2
        };''')],
  ["C15/look-ahead/unknown-length"])
M("C15-commit-buffer-len", "C15", [(DRIVE, '''        let count = match connection.read(buffer).await {
            Ok(count) => count,''', '''        let requested = buffer.len();
        let count = match connection.read(buffer).await {
            Ok(_) => requested,''')],
  ["C15/read/commit-count"])
M("C15-write-restarts-packet", "C15", [(DRIVE, '''        let count = match write_current(&mut self.io, &bytes[written..]).await {''', '''        let count = match write_current(&mut self.io, &bytes[written.min(1)..]).await {''')],
  ["C15/write/resume-slice"])
M("C15-available-off-by-one", "C15", [(READER_RS, '''            Some(length) => self.read_bytes >= length,''', '''            Some(length) => self.read_bytes > length,''')],
  ["C15/read/available"])
M("C15-take-reset-first", "C15", [(READER_RS, '''        let packet_length = *self.packet_length.as_ref().ok_or(Error::MalformedPacket)?;''', '''        let packet_length = self.packet_length.ok_or(Error::MalformedPacket)?.min(self.read_bytes);''')],
  ["C15/take/slice"])
M("C15-zero-read-retried", "C15", [(DRIVE, '''        if count == 0 {
            return Err(Error::Disconnected);
        }
        packet_reader.commit(count);''', '''        if count == 0 {
            continue;
        }
        packet_reader.commit(count);''')],
  ["C15/read/zero-is-eof"])
M("C15-write-all-skips-double", "C15", [(OUT, '''        bytes = &bytes[written..];
    }
    Ok(())''', '''        bytes = &bytes[written.min(bytes.len() - 1) + 1..];
    }
    Ok(())''')],
  ["C15/write/all-cursor"])
M("C15-probe-skipped-after-first", "C15", [(READER_RS, '''        if self.packet_length.is_none() {
            self.probe_fixed_header()?;
        }''', '''        if self.packet_length.is_none() && self.read_bytes != 3 {
            self.probe_fixed_header()?;
        }''')],
  ["C15/look-ahead/probe"])

# ---------------------------------------------------------------------------------------------- C08
DESER = "src/de/deserializer.rs"
RECV = "src/de/received_packet.rs"
M("C08-try-take-no-guard", "C08", [(DESER, '''        if self.len() < n {
            return Err(Error::InsufficientData);
        }

        let data''', '''        let data''')],
  ["C08/panic/de::deserializer::MqttDeserializer::<'a>::try_take_n/call:index#1"])
M("C08-pop-no-guard", "C08", [(DESER, '''        if self.len() == 0 {
            return Err(Error::InsufficientData);
        }

        let byte''', '''        let byte''')],
  ["C08/panic/de::deserializer::MqttDeserializer::<'a>::pop/assert:BoundsCheck#1"])
M("C08-new-unwrap-on-inbound-path", "C08", [(INB, '''                let packet_id = info.packet_id.ok_or(ProtocolError::MalformedPacket)?;
                        let reason = if self.pending_server_packet_ids.contains(&packet_id) {''', '''                let packet_id = info.packet_id.unwrap();
                        let reason = if self.pending_server_packet_ids.contains(&packet_id) {''')],
  ["C08/panic/inbound::<impl state::SessionData<'a>>::handle_packet/call:unwrap#1"])
M("C08-pubrel-flags-any", "C08", [(RECV, '''            MessageType::PubRel => flags == 0b0010,''', '''            MessageType::PubRel => true,''')],
  ["C08/tables/flags/PubRel"])
M("C08-puback-flags-unchecked", "C08", [(RECV, '''            MessageType::ConnAck
            | MessageType::PubAck
            | MessageType::PubRec''', '''            MessageType::PubAck => true,
            MessageType::ConnAck
            | MessageType::PubRec''')],
  ["C08/tables/flags/PubAck"])
M("C08-trailing-garbage-on-puback", "C08", [(RECV, '''                ReceivedPacket::UnsubAck(unsuback) => {
                    unsuback.codes = remaining_payload;
                }''', '''                ReceivedPacket::UnsubAck(unsuback) => {
                    unsuback.codes = remaining_payload;
                }
                ReceivedPacket::PubAck(_) => {}''')],
  ["C08/tables/trailing-payload"])
M("C08-varint-overlong-value-test", "C08", [(VARINT, '''            if shift != 0 && part == 0 {''', '''            if shift != 0 && value < 0x80 {''')],
  ["C08/varint/overlong"])
M("C08-varint-five-bytes", "C08", [(VARINT, '''    for shift in [0, 7, 14, 21] {''', '''    for shift in [0, 7, 14, 21, 28] {''')],
  ["C08/varint/four-bytes"])
M("C08-varint-top-nibble", "C08", [(VARINT, '''        if shift == 21 && part > 0x0F {''', '''        if shift == 21 && part > 0x7F {''')],
  ["C08/varint/max-28-bits"])
M("C08-auth-packet-accepted", "C08", [(RECV, '''            MessageType::PingResp => ReceivedPacket::PingResp,''', '''            MessageType::PingResp | MessageType::Auth => ReceivedPacket::PingResp,''')],
  ["C08/tables/dispatch/Auth"])
M("C08-properties-iter-no-bound", "C08", [(PROPS, '''                if *index >= props.len() {
                    return None;
                }

                let mut deserializer''', '''                if *index > props.len() {
                    return None;
                }

                let mut deserializer''')],
  ["C08/panic/<properties::PropertiesIter<'a> as core::iter::Iterator>::next/call:index#1"])
M("C08-probe-unbounded", "C08", [(READER_RS, '''        for (index, value) in self.buffer[1..self.read_bytes].iter().take(4).enumerate() {''', '''        for (index, value) in self.buffer[1..self.read_bytes].iter().enumerate() {''')],
  ["C08/varint/reader-probe"])
M("C08-qos3-accepted", "C08", [(RECV, '''                let qos = QoS::try_from((fixed_header >> 1) & 0b11)
                    .map_err(|_| A::Error::custom("Bad QoS field"))?;''', '''                let qos = QoS::try_from((fixed_header >> 1) & 0b11).unwrap_or(QoS::ExactlyOnce);''')],
  ["C08/tables/qos3"])
M("C08-idle-returned-from-wait", "C08", [(DRIVE, '''                Progress::Advanced => return Ok(Progress::Advanced),
                Progress::Idle => {}''', '''                Progress::Advanced => return Ok(Progress::Advanced),
                Progress::Idle if self.session.runtime.next_ping.is_none() => return Ok(Progress::Idle),
                Progress::Idle => {}''')],
  ["C08/unreachable/poll-recv"])

# independently produced behaviour-preserving refactorings (one sub-agent per area; each passes the 132 tests)
ALL19 = ["C%02d" % i for i in range(1, 21) if i != 16]
for _r in ("R1", "R2", "R3", "R4", "R5", "R6"):
    RF("RF-agent-%s" % _r, ALL19, [("@patch", "selftest/refactors/%s.diff" % _r, "")])

# ---------------------------------------------------------------------------------------------- mutants on top of a refactoring
# the normal form must not hide a defect that sits inside an extracted helper (each entry = R1 + one break)
_R1 = ("@patch", "selftest/refactors/R1.diff", "")
M("N1-helper-guard-inverted", ["C11"], [_R1, (OPS, '''        if self.live {
            Ok(())
        } else {
            Err(Error::Disconnected)
        }''', '''        if !self.live {
            Ok(())
        } else {
            Err(Error::Disconnected)
        }''')], ["C11/entry/subscribe"])
M("N2-helper-drain-after-alloc", ["C05", "C01"], [_R1, (OPS, '''        self.flush_outbound().await?;
        self.require_retained_slot()?;

        let packet_id = self.session.data.next_packet_id();
        let packet = build_packet(packet_id);''', '''        self.require_retained_slot()?;

        let packet_id = self.session.data.next_packet_id();
        self.flush_outbound().await?;
        let packet = build_packet(packet_id);''')], ["C05/replay-first/subscribe"])
M("N3-helper-size-check-dropped", ["C14"], [_R1, (OPS, '''        let (offset, len) = self.session.data.outbound.encode_packet(&packet)?;
        self.session.runtime.require_packet_size(len)?;
        self.session''', '''        let (offset, len) = self.session.data.outbound.encode_packet(&packet)?;
        self.session''')], ["C14/tx/enqueue/subscribe"])
M("N4-helper-write-before-enqueue", ["C02", "C13"], [_R1, (OPS, '''        self.session.runtime.require_packet_size(len)?;
        self.session
            .data
            .outbound
            .retain_packet(packet_id, offset, len)?;''', '''        self.session.runtime.require_packet_size(len)?;
        self.flush_outbound().await?;
        self.session
            .data
            .outbound
            .retain_packet(packet_id, offset, len)?;''')], ["C13/atomic/subscribe"])

# ---------------------------------------------------------------------------------------------- C10 due/shape: spellings and breaks
_SQ_OLD = '''        self.session.runtime.ping_timeout.is_none()
            && self
                .session
                .runtime
                .next_ping
                .is_some_and(|deadline| now >= deadline)
            && !self.session.data.outbound.has_pending_pingreq()'''
RF("RF-due-as-match", ["C10", "C11", "C13"], [(DRIVE, _SQ_OLD, '''        let runtime = &self.session.runtime;
        if runtime.ping_timeout.is_some() {
            return false;
        }
        match runtime.next_ping {
            Some(due_at) if now >= due_at => !self.session.data.outbound.has_pending_pingreq(),
            _ => false,
        }''')])
RF("RF-due-as-if-let", ["C10", "C11", "C13"], [(DRIVE, _SQ_OLD, '''        if let (None, Some(next)) = (self.session.runtime.ping_timeout, self.session.runtime.next_ping) {
            next <= now && !self.session.data.outbound.has_pending_pingreq()
        } else {
            false
        }''')])
RF("RF-due-map-or", ["C10", "C11", "C13"], [(DRIVE, _SQ_OLD, '''        let response_outstanding = self.session.runtime.ping_timeout.is_some();
        let deadline_reached = self.session.runtime.next_ping.map_or(false, |at| now >= at);
        !response_outstanding && deadline_reached && !self.session.data.outbound.has_pending_pingreq()''')])
M("C10-due-ignores-outstanding-response", "C10", [(DRIVE, _SQ_OLD, '''        self
                .session
                .runtime
                .next_ping
                .is_some_and(|deadline| now >= deadline)
            && !self.session.data.outbound.has_pending_pingreq()''')], ["C10/due/shape"])
M("C10-due-without-deadline-test", "C10", [(DRIVE, _SQ_OLD, '''        self.session.runtime.ping_timeout.is_none()
            && self.session.runtime.next_ping.is_some()
            && !self.session.data.outbound.has_pending_pingreq()''')], ["C10/due/shape"])
M("C10-due-match-inverted-cmp", "C10", [(DRIVE, _SQ_OLD, '''        let runtime = &self.session.runtime;
        if runtime.ping_timeout.is_some() {
            return false;
        }
        match runtime.next_ping {
            Some(due_at) if now <= due_at => !self.session.data.outbound.has_pending_pingreq(),
            _ => false,
        }''')], ["C10/due/shape"])
M("C10-due-requeues-pending", "C10", [(DRIVE, _SQ_OLD, '''        self.session.runtime.ping_timeout.is_none()
            && self
                .session
                .runtime
                .next_ping
                .is_some_and(|deadline| now >= deadline)''')], ["C10/due/shape"])

# second round: atomic behaviour-preserving refactorings, six per area, each applying to the pristine tree on its own
import glob as _glob, os as _os
for _p in sorted(_glob.glob(_os.path.join(_os.path.dirname(_os.path.abspath(__file__)), "refactors", "rf2", "*.diff"))):
    RF("RF2-" + _os.path.basename(_p)[:-5], ALL19, [("@patch", "selftest/refactors/rf2/" + _os.path.basename(_p), "")])

# ---------------------------------------------------------------------------------------------- independently seeded breaking changes (seeded/*/patch.diff)
# each must keep failing the named obligation of its own property's check
M("SEED-C01-a", ["C01"], [("@patch", "seeded/C01-a/patch.diff", "")], ["C01/replay/pending_control"])
M("SEED-C01-b", ["C01"], [("@patch", "seeded/C01-b/patch.diff", "")], ["C01/replay/arena-order/retained/ack_packet/swap_remove"])
M("SEED-C02-a", ["C02"], [("@patch", "seeded/C02-a/patch.diff", "")], ["C02/order/retained/ack_packet/swap_remove"])
M("SEED-C02-b", ["C02"], [("@patch", "seeded/C02-b/patch.diff", "")], ["C02/replay/retained-rearmed-whole"])
M("SEED-C03-a", ["C03"], [("@patch", "seeded/C03-a/patch.diff", "")], ["C03/rel/after-removal#1"])
M("SEED-C03-b", ["C03"], [("@patch", "seeded/C03-b/patch.diff", "")], ["C03/wire/rearmed"])
M("SEED-C04-a", ["C04"], [("@patch", "seeded/C04-a/patch.diff", "")], ["C04/ack/replayed-whole"])
M("SEED-C04-b", ["C04"], [("@patch", "seeded/C04-b/patch.diff", "")], ["C04/once/deliver-implies-recorded"])
M("SEED-C05-a", ["C05"], [("@patch", "seeded/C05-a/patch.diff", "")], ["C05/reset/before-any-failure"])
M("SEED-C05-b", ["C05"], [("@patch", "seeded/C05-b/patch.diff", "")], ["C05/reset/unconditional"])
M("SEED-C06-a", ["C06"], [("@patch", "seeded/C06-a/patch.diff", "")], ["C06/inc/only-on-failure/PubRec"])
M("SEED-C06-b", ["C06"], [("@patch", "seeded/C06-b/patch.diff", "")], ["C06/resume/window-minus-inflight"])
M("SEED-C07-a", ["C07"], [("@patch", "seeded/C07-a/patch.diff", "")], ["C07/fresh/pending_release"])
M("SEED-C07-b", ["C07"], [("@patch", "seeded/C07-b/patch.diff", "")], ["C07/fresh/pending_release"])
M("SEED-C08-a", ["C08"], [("@patch", "seeded/C08-a/patch.diff", "")], ["C08/varint/overlong"])
M("SEED-C08-b", ["C08"], [("@patch", "seeded/C08-b/patch.diff", "")], ["C08/panic/de::packet_reader::PacketReader::<'a>::receive_buffer/call:index_mut#1"])
M("SEED-C09-a", ["C09"], [("@patch", "seeded/C09-a/patch.diff", "")], ["C09/varint/encoded-len"])
M("SEED-C09-b", ["C09"], [("@patch", "seeded/C09-b/patch.diff", "")], ["C09/bits/connect/password-flag"])
M("SEED-C10-a", ["C10"], [("@patch", "seeded/C10-a/patch.diff", "")], ["C10/due/depends-only-on-keepalive-state"])
M("SEED-C10-b", ["C10"], [("@patch", "seeded/C10-b/patch.diff", "")], ["C10/const/lead-positive"])
M("SEED-C11-a", ["C11"], [("@patch", "seeded/C11-a/patch.diff", "")], ["C11/fatal/read_packet/fill_packet_reader#1"])
M("SEED-C11-b", ["C11"], [("@patch", "seeded/C11-b/patch.diff", "")], ["C11/fatal-inbound/disconnect-arm"])
M("SEED-C12-a", ["C12"], [("@patch", "seeded/C12-a/patch.diff", "")], ["C12/reset/send-progress-before-handshake"])
M("SEED-C12-b", ["C12"], [("@patch", "seeded/C12-b/patch.diff", "")], ["C12/reset/reader-field/length_bytes"])
M("SEED-C13-a", ["C13"], [("@patch", "seeded/C13-a/patch.diff", "")], ["C13/progress/perform_outbound_step/write_all#1"])
M("SEED-C13-b", ["C13"], [("@patch", "seeded/C13-b/patch.diff", "")], ["C13/atomic/deliver/drive_packet#1"])
M("SEED-C14-a", ["C14"], [("@patch", "seeded/C14-a/patch.diff", "")], ["C14/adv/limit-honoured"])
M("SEED-C14-b", ["C14"], [("@patch", "seeded/C14-b/patch.diff", "")], ["C14/tx/perform_outbound_step/write_current#1"])
M("SEED-C15-a", ["C15"], [("@patch", "seeded/C15-a/patch.diff", "")], ["C15/look-ahead/unknown-length"])
M("SEED-C15-b", ["C15"], [("@patch", "seeded/C15-b/patch.diff", "")], ["C15/write/no-interleave/Control"])
M("SEED-C17-a", ["C17"], [("@patch", "seeded/C17-a/patch.diff", "")], ["C17/base/scratch_space"])
M("SEED-C17-b", ["C17"], [("@patch", "seeded/C17-b/patch.diff", "")], ["C17/slots/quota-after-enqueue"])
M("SEED-C18-a", ["C18"], [("@patch", "seeded/C18-a/patch.diff", "")], ["C18/final-ack/PubRec/reason-always-checked"])
M("SEED-C18-b", ["C18"], [("@patch", "seeded/C18-b/patch.diff", "")], ["C18/invalidate/on-every-fresh-session"])
M("SEED-C19-a", ["C19"], [("@patch", "seeded/C19-a/patch.diff", "")], ["C19/coverage/valid_for/WithCorrelation"])
M("SEED-C19-b", ["C19"], [("@patch", "seeded/C19-b/patch.diff", "")], ["C19/qos/identifier-decision"])
M("SEED-C20-a", ["C20"], [("@patch", "seeded/C20-a/patch.diff", "")], ["C20/target/topic"])
M("SEED-C20-b", ["C20"], [("@patch", "seeded/C20-b/patch.diff", "")], ["C20/publication/OwnedResponseTarget/correlation"])

# seeds of round 3 (one per property, asked to sit where two pieces of code must agree or on a boundary value)
M("SEED-C01-c", ["C01"], [("@patch", "seeded/C01-c/patch.diff", "")], ["C01/varint/encoded-len"])
M("SEED-C02-c", ["C02"], [("@patch", "seeded/C02-c/patch.diff", "")], ["C02/base/scratch_space"])
M("SEED-C03-c", ["C03"], [("@patch", "seeded/C03-c/patch.diff", "")], ["C03/comp/removes-the-acknowledged-entry"])
M("SEED-C04-c", ["C04"], [("@patch", "seeded/C04-c/patch.diff", "")], ["C04/fresh/before-any-failure"])
M("SEED-C05-c", ["C05"], [("@patch", "seeded/C05-c/patch.diff", "")], ["C05/replay/pending_control"])
M("SEED-C06-c", ["C06"], [("@patch", "seeded/C06-c/patch.diff", "")], ["C06/inc/arm/SubAck"])
M("SEED-C07-c", ["C07"], [("@patch", "seeded/C07-c/patch.diff", "")], ["C07/fresh/pending_release"])
M("SEED-C08-c", ["C08"], [("@patch", "seeded/C08-c/patch.diff", "")], ["C08/tables/qos3"])
M("SEED-C09-c", ["C09"], [("@patch", "seeded/C09-c/patch.diff", "")], ["C09/bits/connect/will-retain"])
M("SEED-C10-c", ["C10"], [("@patch", "seeded/C10-c/patch.diff", "")], ["C10/const/schedule-after-connack"])
M("SEED-C11-c", ["C11"], [("@patch", "seeded/C11-c/patch.diff", "")], ["C11/fatal/flush_current/Write.flush#1"])
M("SEED-C12-c", ["C12"], [("@patch", "seeded/C12-c/patch.diff", "")], ["C12/advertised/ReceiveMaximum"])
M("SEED-C13-c", ["C13"], [("@patch", "seeded/C13-c/patch.diff", "")], ["C13/ping/pending-states"])
M("SEED-C14-c", ["C14"], [("@patch", "seeded/C14-c/patch.diff", "")], ["C14/rx/window"])
M("SEED-C15-c", ["C15"], [("@patch", "seeded/C15-c/patch.diff", "")], ["C15/write/resume-slice"])
M("SEED-C17-c", ["C17"], [("@patch", "seeded/C17-c/patch.diff", "")], ["C17/writers/ack_packet/copy_within"])
M("SEED-C18-c", ["C18"], [("@patch", "seeded/C18-c/patch.diff", "")], ["C18/status/table"])
M("SEED-C19-c", ["C19"], [("@patch", "seeded/C19-c/patch.diff", "")], ["C19/table/Will/TopicAlias"])
M("SEED-C20-c", ["C20"], [("@patch", "seeded/C20-c/patch.diff", "")], ["C20/decode/ContentType"])

# seeds of round 4 (asked for error paths, duplicated computations, orderings that matter on failure, boundary comparisons)
M("SEED-C01-d", ["C01"], [("@patch", "seeded/C01-d/patch.diff", "")], ["C01/priority/gated/Control"])
M("SEED-C02-d", ["C02"], [("@patch", "seeded/C02-d/patch.diff", "")], ["C02/remove/removes-the-acknowledged-entry"])
M("SEED-C03-d", ["C03"], [("@patch", "seeded/C03-d/patch.diff", "")], ["C03/final/PubComp/remove-then-report"])
M("SEED-C04-d", ["C04"], [("@patch", "seeded/C04-d/patch.diff", "")], ["C04/once/inbound-identifier-space"])
M("SEED-C05-d", ["C05"], [("@patch", "seeded/C05-d/patch.diff", "")], ["C05/status/table"])
M("SEED-C06-d", ["C06"], [("@patch", "seeded/C06-d/patch.diff", "")], ["C06/init/capacity-within-tables"])
M("SEED-C07-d", ["C07"], [("@patch", "seeded/C07-d/patch.diff", "")], ["C07/nz/returns-nonzero"])
M("SEED-C08-d", ["C08"], [("@patch", "seeded/C08-d/patch.diff", "")], ["C08/atomic/connack-properties"])
M("SEED-C09-d", ["C09"], [("@patch", "seeded/C09-d/patch.diff", "")], ["C09/len16/Utf8String"])
M("SEED-C10-d", ["C10"], [("@patch", "seeded/C10-d/patch.diff", "")], ["C10/who/ping-timeout-armed/perform_outbound_step"])
M("SEED-C11-d", ["C11"], [("@patch", "seeded/C11-d/patch.diff", "")], ["C11/ctor/service#1"])
M("SEED-C12-d", ["C12"], [("@patch", "seeded/C12-d/patch.diff", "")], ["C12/usable/inflight-read-after-reset"])
M("SEED-C13-d", ["C13"], [("@patch", "seeded/C13-d/patch.diff", "")], ["C13/progress/read_packet/fill_packet_reader#1"])
M("SEED-C14-d", ["C14"], [("@patch", "seeded/C14-d/patch.diff", "")], ["C14/tx/disconnect_with/write_all#1"])
M("SEED-C15-d", ["C15"], [("@patch", "seeded/C15-d/patch.diff", "")], ["C15/read/commit-count"])
M("SEED-C17-d", ["C17"], [("@patch", "seeded/C17-d/patch.diff", "")], ["C17/slots/released/SubAck/remove-then-report"])
M("SEED-C18-d", ["C18"], [("@patch", "seeded/C18-d/patch.diff", "")], ["C18/invalidate/fresh/before-any-failure"])
M("SEED-C19-d", ["C19"], [("@patch", "seeded/C19-d/patch.diff", "")], ["C19/order/disconnect_with/validate-first"])
M("SEED-C20-d", ["C20"], [("@patch", "seeded/C20-d/patch.diff", "")], ["C20/owned/no-truncation"])

# seeds of round 5 (a plausible clean-up or hardening with one hidden behavioural change; multi-connection / multi-step histories)
M("SEED-C01-e", ["C01"], [("@patch", "seeded/C01-e/patch.diff", "")], ["C01/id-nz/returns-nonzero"])
M("SEED-C02-e", ["C02"], [("@patch", "seeded/C02-e/patch.diff", "")], ["C02/limit/per-connection/maximum_packet_size"])
M("SEED-C03-e", ["C03"], [("@patch", "seeded/C03-e/patch.diff", "")], ["C03/ANCHOR-LOST/rel/outbound:retained_removal"])
M("SEED-C04-e", ["C04"], [("@patch", "seeded/C04-e/patch.diff", "")], ["C04/surfaced/drive_packet#1"])
M("SEED-C05-e", ["C05"], [("@patch", "seeded/C05-e/patch.diff", "")], ["C05/wire/client-id-writer/reset"])
M("SEED-C06-e", ["C06"], [("@patch", "seeded/C06-e/patch.diff", "")], ["C06/inc/retained-removal-reports-removal"])
M("SEED-C07-e", ["C07"], [("@patch", "seeded/C07-e/patch.diff", "")], ["C07/tables/retained-removes-the-acknowledged-entry"])
M("SEED-C08-e", ["C08"], [("@patch", "seeded/C08-e/patch.diff", "")], ["C08/latch/read_packet/fill_packet_reader#1"])
M("SEED-C09-e", ["C09"], [("@patch", "seeded/C09-e/patch.diff", "")], ["C09/corr/properties"])
M("SEED-C10-e", ["C10"], [("@patch", "seeded/C10-e/patch.diff", "")], ["C10/who/ping-timeout-cleared/note_outbound_activity"])
M("SEED-C11-e", ["C11"], [("@patch", "seeded/C11-e/patch.diff", "")], ["C11/fatal/disconnect_with/write_all#1"])
M("SEED-C12-e", ["C12"], [("@patch", "seeded/C12-e/patch.diff", "")], ["C12/compact/no-shortcut"])
M("SEED-C13-e", ["C13"], [("@patch", "seeded/C13-e/patch.diff", "")], ["C13/atomic/subscribe"])
M("SEED-C14-e", ["C14"], [("@patch", "seeded/C14-e/patch.diff", "")], ["C14/tx/perform_outbound_step/write_current#1"])
M("SEED-C15-e", ["C15"], [("@patch", "seeded/C15-e/patch.diff", "")], ["C15/replay/retained"])
M("SEED-C17-e", ["C17"], [("@patch", "seeded/C17-e/patch.diff", "")], ["C17/quota/inflight-read-after-reset"])
M("SEED-C18-e", ["C18"], [("@patch", "seeded/C18-e/patch.diff", "")], ["C18/ack/retained-removes-the-acknowledged-entry"])
M("SEED-C19-e", ["C19"], [("@patch", "seeded/C19-e/patch.diff", "")], ["C19/dead/fatal-inbound/handle_packet#1"])
M("SEED-C20-e", ["C20"], [("@patch", "seeded/C20-e/patch.diff", "")], ["C20/publication/with_properties-keeps-correlation"])

# seeds of round 6 (small local edits: an operator off by one, two arguments transposed, the wrong sibling variant, a guard moved by a line)
M("SEED-C01-f", ["C01"], [("@patch", "seeded/C01-f/patch.diff", "")], ["C01/bits/connect/will-retain"])
M("SEED-C02-f", ["C02"], [("@patch", "seeded/C02-f/patch.diff", "")], ["C02/once/latch-only/process_received_packet"])
M("SEED-C03-f", ["C03"], [("@patch", "seeded/C03-f/patch.diff", "")], ["C03/reason/success-table"])
M("SEED-C04-f", ["C04"], [("@patch", "seeded/C04-f/patch.diff", "")], ["C04/rx/window"])
M("SEED-C05-f", ["C05"], [("@patch", "seeded/C05-f/patch.diff", "")], ["C05/reason/success-table"])
M("SEED-C06-f", ["C06"], [("@patch", "seeded/C06-f/patch.diff", "")], ["C06/rel/after-reason#1"])
M("SEED-C07-f", ["C07"], [("@patch", "seeded/C07-f/patch.diff", "")], ["C07/fresh/retained"])
M("SEED-C08-f", ["C08"], [("@patch", "seeded/C08-f/patch.diff", "")], ["C08/decode/TopicAliasMaximum"])
M("SEED-C09-f", ["C09"], [("@patch", "seeded/C09-f/patch.diff", "")], ["C09/bits/suboptions/no-local"])
M("SEED-C10-f", ["C10"], [("@patch", "seeded/C10-f/patch.diff", "")], ["C10/race/next-deadline-table"])
M("SEED-C11-f", ["C11"], [("@patch", "seeded/C11-f/patch.diff", "")], ["C11/fatal/publish/write_all#1"])
M("SEED-C12-f", ["C12"], [("@patch", "seeded/C12-f/patch.diff", "")], ["C12/usable/per-connection/maximum_packet_size"])
M("SEED-C13-f", ["C13"], [("@patch", "seeded/C13-f/patch.diff", "")], ["C13/sent/kind/Retained#3"])
M("SEED-C14-f", ["C14"], [("@patch", "seeded/C14-f/patch.diff", "")], ["C14/tx/enqueue-length/subscribe"])
M("SEED-C15-f", ["C15"], [("@patch", "seeded/C15-f/patch.diff", "")], ["C15/store/step-accumulates"])
M("SEED-C17-f", ["C17"], [("@patch", "seeded/C17-f/patch.diff", "")], ["C17/slots/released/PubRec/reason-always-checked"])
M("SEED-C18-f", ["C18"], [("@patch", "seeded/C18-f/patch.diff", "")], ["C18/status/connection/is_complete"])
M("SEED-C19-f", ["C19"], [("@patch", "seeded/C19-f/patch.diff", "")], ["C19/value/SubscriptionIdentifier"])
M("SEED-C20-f", ["C20"], [("@patch", "seeded/C20-f/patch.diff", "")], ["C20/target/correlation"])

# seeds of round 7 (two places that disagree about a contract: who performs a step, what a returned bool / count means, which unit a value is in)
M("SEED-C01-g", ["C01"], [("@patch", "seeded/C01-g/patch.diff", "")], ["C01/qos/header-downgraded"])
M("SEED-C02-g", ["C02"], [("@patch", "seeded/C02-g/patch.diff", "")], ["C02/fresh/before-any-failure"])
M("SEED-C03-g", ["C03"], [("@patch", "seeded/C03-g/patch.diff", "")], ["C03/order/pending_release/queue_release/insert"])
M("SEED-C04-g", ["C04"], [("@patch", "seeded/C04-g/patch.diff", "")], ["C04/store/flush-after-complete-write"])
M("SEED-C05-g", ["C05"], [("@patch", "seeded/C05-g/patch.diff", "")], ["C05/order/retained/ack_packet/swap_remove"])
M("SEED-C06-g", ["C06"], [("@patch", "seeded/C06-g/patch.diff", "")], ["C06/dec/after-enqueue"])
M("SEED-C07-g", ["C07"], [("@patch", "seeded/C07-g/patch.diff", "")], ["C07/qos/header-downgraded"])
M("SEED-C08-g", ["C08"], [("@patch", "seeded/C08-g/patch.diff", "")], ["C08/props-iter/advance-matches-start"])
M("SEED-C09-g", ["C09"], [("@patch", "seeded/C09-g/patch.diff", "")], ["C09/props/size/ContentType"])
M("SEED-C10-g", ["C10"], [("@patch", "seeded/C10-g/patch.diff", "")], ["C10/refresh/publish"])
M("SEED-C11-g", ["C11"], [("@patch", "seeded/C11-g/patch.diff", "")], ["C11/fatal/read_packet/fill_packet_reader#1"])
M("SEED-C12-g", ["C12"], [("@patch", "seeded/C12-g/patch.diff", "")], ["C12/used/writer/retain_packet"])
M("SEED-C13-g", ["C13"], [("@patch", "seeded/C13-g/patch.diff", "")], ["C13/drain/publish/write_all#1"])
M("SEED-C14-g", ["C14"], [("@patch", "seeded/C14-g/patch.diff", "")], ["C14/tx/precheck/handle_packet#2"])
M("SEED-C15-g", ["C15"], [("@patch", "seeded/C15-g/patch.diff", "")], ["C15/write/loop-until-drained"])
M("SEED-C17-g", ["C17"], [("@patch", "seeded/C17-g/patch.diff", "")], ["C17/used/free-space/scratch_len"])
M("SEED-C18-g", ["C18"], [("@patch", "seeded/C18-g/patch.diff", "")], ["C18/ack/release-removes-the-acknowledged-entry"])
M("SEED-C19-g", ["C19"], [("@patch", "seeded/C19-g/patch.diff", "")], ["C19/dead/entry/subscribe"])
M("SEED-C20-g", ["C20"], [("@patch", "seeded/C20-g/patch.diff", "")], ["C20/block/size-is-a-sum/WithCorrelation"])

# seeds of round 8 (order and lifetime of state: two statements exchanged, a reset one step early / late, state that must be re-initialised per connection)
M("SEED-C01-h", ["C01"], [("@patch", "seeded/C01-h/patch.diff", "")], ["C01/last/write_all#1"])
M("SEED-C02-h", ["C02"], [("@patch", "seeded/C02-h/patch.diff", "")], ["C02/final/PubAck/remove-then-report"])
M("SEED-C03-h", ["C03"], [("@patch", "seeded/C03-h/patch.diff", "")], ["C03/wire/rearmed"])
M("SEED-C04-h", ["C04"], [("@patch", "seeded/C04-h/patch.diff", "")], ["C04/store/complete-after-flush"])
M("SEED-C05-h", ["C05"], [("@patch", "seeded/C05-h/patch.diff", "")], ["C05/replay/connect-rearms"])
M("SEED-C06-h", ["C06"], [("@patch", "seeded/C06-h/patch.diff", "")], ["C06/resume/inflight-counts-every-publish"])
M("SEED-C07-h", ["C07"], [("@patch", "seeded/C07-h/patch.diff", "")], ["C07/tables/pubrec-success-enters-release-list"])
M("SEED-C08-h", ["C08"], [("@patch", "seeded/C08-h/patch.diff", "")], ["C08/reset/reader-before-handshake"])
M("SEED-C09-h", ["C09"], [("@patch", "seeded/C09-h/patch.diff", "")], ["C09/qos/identifier-decision"])
M("SEED-C10-h", ["C10"], [("@patch", "seeded/C10-h/patch.diff", "")], ["C10/check/inbound-before-expiry"])
M("SEED-C11-h", ["C11"], [("@patch", "seeded/C11-h/patch.diff", "")], ["C11/entry/drive"])
M("SEED-C12-h", ["C12"], [("@patch", "seeded/C12-h/patch.diff", "")], ["C12/atomic/connack-properties"])
M("SEED-C13-h", ["C13"], [("@patch", "seeded/C13-h/patch.diff", "")], ["C13/guard/disconnect_with/Write.flush#1"])
M("SEED-C14-h", ["C14"], [("@patch", "seeded/C14-h/patch.diff", "")], ["C14/latch/read_packet/fill_packet_reader#1"])
M("SEED-C15-h", ["C15"], [("@patch", "seeded/C15-h/patch.diff", "")], ["C15/reset/reader-before-handshake"])
M("SEED-C17-h", ["C17"], [("@patch", "seeded/C17-h/patch.diff", "")], ["C17/used/free-space/scratch_len"])
M("SEED-C18-h", ["C18"], [("@patch", "seeded/C18-h/patch.diff", "")], ["C18/final-ack/PubComp/remove-then-report"])
M("SEED-C19-h", ["C19"], [("@patch", "seeded/C19-h/patch.diff", "")], ["C19/qos/per-connection/max_qos"])
M("SEED-C20-h", ["C20"], [("@patch", "seeded/C20-h/patch.diff", "")], ["C20/target/reply_owned"])
M("SEED-C01-i", ["C01"], [("@patch", "seeded/C01-i/patch.diff", "")], ["C01/len16/Utf8String"])
M("SEED-C03-i", ["C03"], [("@patch", "seeded/C03-i/patch.diff", "")], ["C03/rel/pubrec-reaches-removal"])
M("SEED-C05-i", ["C05"], [("@patch", "seeded/C05-i/patch.diff", "")], ["C05/status/table"])
M("SEED-C07-i", ["C07"], [("@patch", "seeded/C07-i/patch.diff", "")], ["C07/fresh/pending_release"])
M("SEED-C11-i", ["C11"], [("@patch", "seeded/C11-i/patch.diff", "")], ["C11/entry/first-decision/subscribe"])
M("SEED-C02-i", ["C02"], [("@patch", "seeded/C02-i/patch.diff", "")], ["C02/store/set_written"])
M("SEED-C04-i", ["C04"], [("@patch", "seeded/C04-i/patch.diff", "")], ["C04/once/deliver-implies-recorded"])
M("SEED-C06-i", ["C06"], [("@patch", "seeded/C06-i/patch.diff", "")], ["C06/init/connack-walk-complete"])
M("SEED-C08-i", ["C08"], [("@patch", "seeded/C08-i/patch.diff", "")], ["C08/varint/reader-probe"])
M("SEED-C09-i", ["C09"], [("@patch", "seeded/C09-i/patch.diff", "")], ["C09/connect/max-packet-size"])
M("SEED-C10-i", ["C10"], [("@patch", "seeded/C10-i/patch.diff", "")], ["C10/const/server-keepalive-honoured"])
M("SEED-C12-i", ["C12"], [("@patch", "seeded/C12-i/patch.diff", "")], ["C12/fit/exact/push_bytes"])
M("SEED-C13-i", ["C13"], [("@patch", "seeded/C13-i/patch.diff", "")], ["C13/store/set_written"])
M("SEED-C14-i", ["C14"], [("@patch", "seeded/C14-i/patch.diff", "")], ["C14/adv/connect-property"])
M("SEED-C15-i", ["C15"], [("@patch", "seeded/C15-i/patch.diff", "")], ["C15/store/set_written"])
M("SEED-C17-i", ["C17"], [("@patch", "seeded/C17-i/patch.diff", "")], ["C17/quota/per-connection/max_send_quota"])
M("SEED-C18-i", ["C18"], [("@patch", "seeded/C18-i/patch.diff", "")], ["C18/status/table"])
M("SEED-C19-i", ["C19"], [("@patch", "seeded/C19-i/patch.diff", "")], ["C19/value/UserProperty"])
M("SEED-C20-i", ["C20"], [("@patch", "seeded/C20-i/patch.diff", "")], ["C20/len16/BinaryData"])
M("C06-connack-walk-break", ["C06", "C14", "C10", "C19"], [("src/mqtt_client/session/handshake.rs", "max_qos = Some(QoS::try_from(max).map_err(|_| PeerError::InvalidPacket)?);", "max_qos = Some(QoS::try_from(max).map_err(|_| PeerError::InvalidPacket)?);\n                        break;")], ["C06/init/connack-walk-complete", "C14/adv/connack-walk-complete", "C10/const/connack-walk-complete", "C19/qos/connack-walk-complete"])
M("C14-limit-exact-size-refused-runtime", ["C14"], [("src/mqtt_client/session/state.rs", ".is_some_and(|max| len > max as usize)", ".is_some_and(|max| len >= max as usize)")], ["C14/pred/verdict/require_packet_size@RuntimeState"])
M("C14-limit-exact-size-refused-outbound", ["C14"], [("src/mqtt_client/outbound.rs", "if maximum_packet_size.is_some_and(|max| len > max as usize) {", "if maximum_packet_size.is_some_and(|max| len >= max as usize) {")], ["C14/pred/verdict/require_packet_size"])
M("C06-gate-quota-greater-than-one", ["C06"], [("src/mqtt_client/session/mod.rs", "self.runtime.send_quota != 0 && self.data.outbound.can_retain()", "self.runtime.send_quota > 1 && self.data.outbound.can_retain()")], ["C06/gate/reads-quota"])
M("C02-puback-early-return-on-failure", ["C02"], [("src/mqtt_client/session/inbound.rs", "                if !self.outbound.ack_packet(ack.packet_id) {\n                    debug!(\"Ignoring stale PUBACK", "                ack.reason.code().as_result()?;\n                if !self.outbound.ack_packet(ack.packet_id) {\n                    debug!(\"Ignoring stale PUBACK")], ["C02/final/PubAck/reaches-removal"])
M("C03-pubcomp-early-return-on-failure", ["C03"], [("src/mqtt_client/session/inbound.rs", "                if !self.outbound.ack_release(comp.packet_id) {", "                comp.reason.code().as_result()?;\n                if !self.outbound.ack_release(comp.packet_id) {")], ["C03/comp/pubcomp-reaches-removal"])
M("C09-push-off-by-one", ["C09", "C12"], [("src/ser/mod.rs", "if self.buf.len().saturating_sub(self.index) < 1 {", "if self.buf.len().saturating_sub(self.index) <= 1 {")], ["C09/fit/exact/push", "C12/fit/exact/push"])
M("C09-commit-off-by-one", ["C09"], [("src/ser/mod.rs", "if self.buf.len().saturating_sub(self.index) < len {", "if self.buf.len().saturating_sub(self.index) <= len {")], ["C09/fit/exact/commit"])
M("C09-push-bytes-bound-ignores-index", ["C09"], [("src/ser/mod.rs", "if self.buf.len().saturating_sub(self.index) < data.len() {", "if self.buf.len() < data.len() {")], ["C09/fit/exact/push_bytes"])

# third round: property-centred behaviour-preserving refactorings (five per property, around that property's anchors)
for _p in sorted(_glob.glob(_os.path.join(_os.path.dirname(_os.path.abspath(__file__)), "refactors", "rf3", "*.diff"))):
    RF("RF3-" + _os.path.basename(_p)[:-5], ALL19, [("@patch", "selftest/refactors/rf3/" + _os.path.basename(_p), "")])

# defects seeded on top of a behaviour-preserving refactoring (combined patches): the generalised form of a rule has to
# catch, in the refactored shape of the code, what its original form caught in the pinned shape
M("RFM-unrolled-fresh-first", ["C01"], [("@patch", "selftest/mutants_rf/unrolled-fresh-first.diff", "")],
  ["C01/priority/in-progress-first"])
M("RFM-unrolled-control-queue-first", ["C01"], [("@patch", "selftest/mutants_rf/unrolled-control-queue-first.diff", "")],
  ["C01/priority/in-progress-first"])
M("RFM-precheck-inside-enqueue-removed", ["C14"], [("@patch", "selftest/mutants_rf/precheck.diff", "")], ["C14/tx/precheck/handle_packet#5"])
M("RFM-schedule-before-server-keepalive", ["C10"], [("@patch", "selftest/mutants_rf/ka-order.diff", "")], ["C10/const/schedule-after-connack"])
M("RFM-server-keepalive-dropped-for-small-values", ["C10"], [("@patch", "selftest/mutants_rf/ka-drop.diff", "")], ["C10/const/server-keepalive"])
M("RFM-step-records-last-count", ["C13"], [("@patch", "selftest/mutants_rf/accumulate.diff", "")], ["C13/store/step-accumulates"])
M("RFM-qos2-delivered-untracked", ["C04"], [("@patch", "selftest/mutants_rf/untracked.diff", "")], ["C04/once/deliver-implies-recorded"])
M("RFM-compact-fold-cursor", ["C17"], [("@patch", "selftest/mutants_rf/fold-cursor.diff", "")], ["C17/compact/cursor"])
M("RFM-write-then-flush-no-latch", ["C11"], [("@patch", "selftest/mutants_rf/wtf-nolatch.diff", "")], ["C11/fatal/publish/Write.flush#1"])
M("RFM-table-per-context-cell", ["C19"], [("@patch", "selftest/mutants_rf/table-cell.diff", "")], ["C19/table/Publish/WillDelayInterval"])
M("RFM-first-decoded-error-stops", ["C20"], [("@patch", "selftest/mutants_rf/first-err-stops.diff", "")], ["C20/lookup/response_topic/payload"])
M("RFM-connect-flags-struct-credentials", ["C09"], [("@patch", "selftest/mutants_rf/flags-struct.diff", "")], ["C09/bits/connect/password-flag"])
M("RFM-negotiated-window-unclamped", ["C06"], [("@patch", "selftest/mutants_rf/negotiated-unclamped.diff", "")], ["C06/init/max-value"])
M("RFM-enumerate-index-over-skipped-iterator", ["C03"], [("@patch", "selftest/mutants_rf/enumerate-skip.diff", "")], ["C03/comp/removes-the-acknowledged-entry"])
RF("RF-head-first-lookup-with-offset", ALL19, [("@patch", "selftest/refactors/RF-head-first-lookup.diff", "")])
M("RFM-pass-enum-fresh-first", ["C01"], [("@patch", "selftest/mutants_rf/pass-enum-fresh-first.diff", "")], ["C01/priority/in-progress-first"])
M("RFM-counter-plain-u16-no-zero-step", ["C07", "C01"], [("@patch", "selftest/mutants_rf/counter-plain-u16-no-zero-step.diff", "")], ["C07/nz/returns-nonzero", "C01/id-nz/returns-nonzero"])
M("RFM-option-bits-expr-swapped", ["C09", "C01"], [("@patch", "selftest/mutants_rf/option-bits-expr-swapped.diff", "")], ["C09/bits/suboptions/no-local", "C01/bits/suboptions/no-local"])
M("RFM-publish-dup-bit-expr-wrong", ["C09", "C01"], [("@patch", "selftest/mutants_rf/publish-dup-bit-expr-wrong.diff", "")], ["C09/bits/publish/dup"])
M("RFM-free-fn-completion-before-flush", ["C13", "C04"], [("@patch", "selftest/mutants_rf/free-fn-completion-before-flush.diff", "")], ["C13/store/complete-after-flush", "C04/store/complete-after-flush"])
M("C09-u16-little-endian", ["C09", "C01"], [(SER, "    fn serialize_u16(self, v: u16) -> Result<Self::Ok, Self::Error> {\n        self.push_bytes(&v.to_be_bytes())", "    fn serialize_u16(self, v: u16) -> Result<Self::Ok, Self::Error> {\n        self.push_bytes(&v.to_le_bytes())")], ["C09/prim/serialize_u16", "C01/prim/serialize_u16"])
M("C08-read-u16-little-endian", ["C08", "C09"], [(DESER, "Ok(u16::from_be_bytes([self.pop()?, self.pop()?]))", "Ok(u16::from_le_bytes([self.pop()?, self.pop()?]))")], ["C08/prim/read_u16", "C09/prim/read_u16"])
M("C08-u32-bytes-reversed", ["C08"], [(DESER, "visitor.visit_u32(u32::from_be_bytes(self.try_take_n(4)?.try_into().unwrap()))", "visitor.visit_u32(u32::from_be_bytes(self.try_take_n(4)?.try_into().unwrap()).swap_bytes())")], ["C08/prim/deserialize_u32"])
M("C09-varint-encoder-step-8", ["C09", "C01"], [(VARINT, "        value >>= 7;\n        if value != 0 {\n            byte |= 0x80;", "        value >>= 8;\n        if value != 0 {\n            byte |= 0x80;")], ["C09/varint/encoder/step", "C01/varint/encoder/step"])
M("C09-varint-encoder-mask-ff", ["C09"], [(VARINT, "let mut byte = (value & 0x7F) as u8;", "let mut byte = (value & 0xFF) as u8;")], ["C09/varint/encoder/group"])
M("C09-varint-encoder-continuation-always", ["C09"], [(VARINT, "        if value != 0 {\n            byte |= 0x80;\n        }\n        out.push(byte)?;", "        byte |= 0x80;\n        out.push(byte)?;")], ["C09/varint/encoder/continuation"])
M("C08-varint-reader-mask-3f", ["C08"], [(VARINT, "let part = (byte & 0x7F) as u32;", "let part = (byte & 0x3F) as u32;")], ["C08/varint/reader/value/group"])
M("C08-varint-reader-no-accumulate", ["C08"], [(VARINT, "value |= part << shift;", "value = part << shift;")], ["C08/varint/reader/value/accumulate"])
M("C08-varint-reader-shift-of-byte", ["C08"], [(VARINT, "value |= part << shift;", "value |= (byte as u32) << shift;")], ["C08/varint/reader/value/shift"])
M("C08-varint-probe-index-times-8", ["C08"], [(READER_RS, "<< (index * 7);", "<< (index * 8);")], ["C08/varint/reader/remaining-length/shift"])
M("C08-varint-probe-terminator-mask", ["C08"], [(READER_RS, "if (value & 0x80) == 0 {", "if (value & 0xC0) == 0 {")], ["C08/varint/reader/remaining-length/group"])
M("C08-varint-probe-no-accumulate", ["C08"], [(READER_RS, "packet_length += ((value & 0x7F) as usize) << (index * 7);", "packet_length = ((value & 0x7F) as usize) << (index * 7);")], ["C08/varint/reader/remaining-length/accumulate"])
M("RFM-predicates-pending-ignores-generation", ["C18"], [("@patch", "selftest/mutants_rf/predicates-pending-ignores-generation.diff", "")], ["C18/status/table"])

# fourth round: organisational refactorings (guard clauses, sub-borrows, loop forms, private structs, generic helpers)
for _p in sorted(_glob.glob(_os.path.join(_os.path.dirname(_os.path.abspath(__file__)), "refactors", "rf4", "*.diff"))):
    RF("RF4-" + _os.path.basename(_p)[:-5], ALL19, [("@patch", "selftest/refactors/rf4/" + _os.path.basename(_p), "")])

# fifth round: refactorings of data representation and control skeleton (enums for flags, Option <-> value + flag, private
# structs and newtypes, fields moved between structs, functions <-> methods, per-arm functions behind a dispatcher)
for _p in sorted(_glob.glob(_os.path.join(_os.path.dirname(_os.path.abspath(__file__)), "refactors", "rf5", "*.diff"))):
    RF("RF5-" + _os.path.basename(_p)[:-5], ALL19, [("@patch", "selftest/refactors/rf5/" + _os.path.basename(_p), "")])

# sixth round: seeds of all rounds with their hidden defect repaired (`<seed>-repaired`; rounds a-d repaired by sub-agents) -- the same clean-up / hardening, behaviour preserved.
# A check that caught the seed only because of the new *shape* raises a false alarm here.
for _p in sorted(_glob.glob(_os.path.join(_os.path.dirname(_os.path.abspath(__file__)), "refactors", "rf6", "*.diff"))):
    RF("RF6-" + _os.path.basename(_p)[:-5], ALL19, [("@patch", "selftest/refactors/rf6/" + _os.path.basename(_p), "")])

# seventh round: refactorings aimed at the code the clauses of seed rounds 5-7 look at (property iterator and sizes, the
# write / flush tail, the drive loop, the CONNACK handling, removal functions and their results, reason-code predicates,
# status queries, the operations, the packet reader, the serializers, replay and keep-alive bookkeeping)
for _p in sorted(_glob.glob(_os.path.join(_os.path.dirname(_os.path.abspath(__file__)), "refactors", "rf7", "*.diff"))):
    RF("RF7-" + _os.path.basename(_p)[:-5], ALL19, [("@patch", "selftest/refactors/rf7/" + _os.path.basename(_p), "")])


# Behaviour-preserving refactorings on which a check is *known* to fail closed (documented in DESIGN.md §6.5 / §8): the
# property still holds; the construct the rewrite introduces is outside what the analysis can resolve.  They stay in the
# catalogue so that the limit is measured, and so that any *other* key they start raising is noticed.
KNOWN_LIMITS = {
    "RF3-C02-05-outbound-next-step-combinators": ("next_step selects its pass through an array of function pointers (indirect calls are not resolved)",
                                                  ["C01/ANCHOR-LOST/", "C15/ANCHOR-LOST/", "C03/wire/step", "C17/wire/step-from-entry",
                                                   "C01/priority/gated/", "C15/write/no-interleave/"]),
    "RF3-C08-01-packet-reader-combinators": ("the fixed-header probe's arithmetic is rewritten as iterator folds; its overflow sites need a numeric range analysis "
                                             "through take(4).enumerate()", ["C08/panic/", "C08/varint/reader-probe"]),
    "RF3-C14-03-packet-reader-control-flow": ("as above (position + fold in the fixed-header probe)", ["C08/panic/", "C08/varint/reader-probe"]),
    "RF4-C12-03-packet-reader-combinators": ("as above (sub-slices bounded by `len().min(4)` and by the index `position` returned, folded with enumerate)",
                                             ["C08/panic/", "C08/varint/reader-probe"]),
    "RF4-C13-04-packet-reader-combinators": ("as above (position + fold over take(4) in the fixed-header probe)", ["C08/panic/", "C08/varint/reader-probe"]),
    # round 5: re-representation of *anchored state* (the fields the properties' anchors name): the rules are written in
    # terms of that state and fail closed (DESIGN.md 2.5 / 8)
    "RF5-C05-01-broker-session-enum": ("`session_present: bool` (anchored state of C05/C12) becomes a private enum", ["C02/", "C04/", "C05/", "C06/", "C12/", "C18/", "C17/ANCHOR-LOST/quota/"]),
    "RF5-C12-03-session-present-flag-moves-to-session": ("`session_present` moves from SessionData to Session (anchored state)", ["C02/", "C04/", "C05/", "C06/", "C12/", "C18/", "C17/ANCHOR-LOST/quota/"]),
    "RF5-C08-01-framing-enum": ("`PacketReader::packet_length: Option<usize>` (anchored state of C08/C12/C14/C15) becomes a private enum", ["C08/", "C12/", "C14/", "C15/"]),
    "RF5-C12-04-packet-reader-length-flag": ("`packet_length: Option<usize>` becomes value + flag (anchored state)", ["C08/", "C12/", "C14/", "C15/"]),
    "RF5-C13-05-packet-reader-frame-enum": ("`packet_length: Option<usize>` becomes a private enum (anchored state)", ["C08/", "C12/", "C14/", "C15/"]),
    "RF5-C15-01-reader-length-flag": ("`packet_length: Option<usize>` becomes value + flag (anchored state)", ["C08/", "C12/", "C14/", "C15/"]),
    "RF5-C17-02-arena-struct": ("`Outbound::{buf, used}` (anchored state of C17) grouped into a private `Arena` struct", ["C01/", "C02/", "C12/", "C17/"]),
    "RF5-C18-04-generation-in-outbound": ("the generation counter (anchored state of C05/C18) moves from SessionData into Outbound", ["C05/", "C18/"]),
    "RF5-C09-02-ser-body-len-cursor": ("`MqttSerializer::index` (anchored state of C01.len) replaced by a body-length counter", ["C01/len/"]),
    "RF6-C17-h-repaired": ("the space needed after compaction is kept in a counter field (`retained_bytes`, maintained by the enqueue, the removal and "
                           "`clear()`) instead of being summed from the entries: the free-space clauses demand a function of the entries alone "
                           "(anchored representation; the seed it repairs forgets the reset in `clear()` and fails the same clauses)",
                           ["C01/used/free-space/", "C02/used/free-space/", "C12/used/free-space/", "C17/used/free-space/"]),
    "RF6-C20-h-repaired": ("`ResponseTarget::to_owned` is replaced by a constructor `OwnedResponseTarget::capture(topic, correlation)` called from "
                           "`reply_owned` (the anchor of the `owned` group is deleted)", ["C20/target/reply_owned", "C20/ANCHOR-LOST/owned/"]),
    'RF6-C01-d-repaired': ('next_step as two calls of `next_step_where(wanted: fn(SendState) -> bool)` over a generic `next_pending(entries, state: impl Fn, wanted)`: the classifier reaches the test through a function pointer and a closure parameter (indirect calls are not resolved; same class as RF3-C02-05)',
        ['C01/priority/gated', 'C15/write/no-interleave']),
    'RF6-C04-b-repaired': ('the QoS 2 arm decides through a `Qos2Arrival` value returned by a helper; the delivering path is not a constant the path enumeration can follow (same class as RF7-G09-02)',
        ['C04/once/deliver-implies-recorded']),
    'RF6-C05-d-repaired': ('`Session::status` as `match (current, tracked)` with one `is_tracked` lookup over both tables for every kind: the decision table differs from the reference for (QoS 1 / SUBSCRIBE handle, identifier only in the release list) -- unreachable while identifiers are unique, which the table check does not assume',
        ['C05/status/', 'C18/status/']),
    'RF6-C06-c-repaired': ('`ack_packet` returns an `Acked` classification and a `settle` helper credits the window by acknowledgement kind: quota increments no longer sit in the arms the increment rules enumerate',
        ['C06/inc/']),
    'RF6-C07-b-repaired': ("the in-flight lookups become one iterator `inflight_ids(publishes_only)` chained over both tables: the allocator's two lookups are no longer two membership tests the `fresh` clause can name (and the iterator reads arena bytes through a new borrow)",
        ['C07/fresh/', 'C01/writers/encapsulated', 'C02/writers/encapsulated', 'C17/writers/encapsulated']),
    'RF6-C07-c-repaired': ('a `packet_id_wrapped` fast path hands identifiers out without a lookup until the counter has wrapped once: correct by a history argument (nothing in flight can carry a larger identifier before the first wrap), not visible as a lookup on every path',
        ['C07/fresh/']),
    'RF6-C07-d-repaired': ('the allocator walks a local candidate through an `owns_packet_id` helper and stores the counter once at the end: the looked-up value and the returned value are related through two `get()` calls of a loop-carried local',
        ['C07/fresh/']),
    'RF6-C08-b-repaired': ('the bound check `header + remaining length <= buffer.len()` moves into the length probe; `receive_buffer` slices without a guard of its own (the guard is an invariant of the stored length, established elsewhere)',
        ['C04/rx/window', 'C14/rx/window', 'C08/panic/']),
    'RF6-C14-c-repaired': ('as RF6-C08-b-repaired: the receive-window guard is established by the probe that stores the packet length',
        ['C04/rx/window', 'C14/rx/window', 'C08/panic/']),
    'RF6-C09-c-repaired': ("`Will` keeps its CONNECT flag bits in one `flags: u8` field maintained by the builder methods: the connect-flags table is read from the serializer's own `|=` contributions",
        ['C01/bits/connect', 'C09/bits/connect']),
    'RF6-C12-b-repaired': ('the length probe becomes incremental with two new reader fields: new arithmetic / indexing sites on the inbound path have no entry in the panic-site discharge table (reported by design)',
        ['C08/panic/', 'C08/varint/reader-probe']),
    'RF6-C15-c-repaired': ('the write step carries only the unsent tail (`pending`) and the recorded progress is `len - pending + written`: a re-representation of the (bytes, written, len) triple the write clauses compare',
        ['C01/store/step-accumulates', 'C02/store/step-accumulates', 'C02/write/', 'C04/store/step-accumulates', 'C13/store/step-accumulates', 'C15/store/step-accumulates', 'C15/write/']),
    'RF6-C03-i-repaired': ('a room test `inflight_publishes() <= max_inflight()` with an early error return stays in front of the retained removal: it can never fail (the count never exceeds the capacity), which is a fact about values, not about the shape of the arm',
        ['C03/rel/pubrec-reaches-removal']),
    'RF6-C04-i-repaired': ('the capacity test is made up front with `is_full()` and the result of the push is then discarded (`let _ = push(..)`, "cannot fail"): that the push succeeds follows from an invariant of heapless::Vec the rule does not model -- it accepts a delivery only over the success edge of the recording call',
        ['C04/once/deliver-implies-recorded']),
    'RF6-C13-i-repaired': ('`set_written(written, len)` becomes `advance(count, len)`: the running total is formed inside the state machine from its own recorded value instead of by the caller -- a re-representation of the recorded quantity the store clauses compare',
        ['C01/store/', 'C02/store/', 'C04/store/', 'C13/store/', 'C15/store/']),
    'RF6-C17-c-repaired': ('`ack_packet` closes the hole itself with a `close_hole` helper (`copy_within` + `used` update) instead of calling `compact()`: a new writer of arena bytes and of `used` (who-may-write rules report it by design)',
        ['C01/used/writer', 'C01/writers/', 'C02/used/writer', 'C02/writers/', 'C12/used/writer', 'C17/used/writer', 'C17/writers/']),
    # round 7: documented limits
    "RF7-G02-01-written-progress-combinators": ("`SendState::set_written(&mut self, written, len)` becomes a pure constructor `after_write(written, len) -> Self` "
                                                "(a new function, folded into the three setters): the anchor of the `store` group is gone",
                                                ["C01/ANCHOR-LOST/store/", "C02/ANCHOR-LOST/resume/", "C04/ANCHOR-LOST/store/", "C13/ANCHOR-LOST/store/", "C15/ANCHOR-LOST/store/"]),
    "RF7-G04-03-connect-event-as-session-flag": ("the `resumed` flag is replaced by the ConnectEvent computed once and returned through `match event { .. } Ok(event)`: "
                                                 "the event table is read from the two `Ok(ConnectEvent::..)` constructions", ["C05/reset/event"]),
    "RF7-G07-04-status-as-option-bool": ("`Session::status` returns `Option<bool>` and the `OpStatus` enum is deleted (anchored representation of the verdict)",
                                         ["C05/status/table", "C18/status/table"]),
    "RF7-G09-02-publish-qos2-admit-helper": ("the delivery verdict of the QoS 2 arm is kept in a local computed by `!duplicate && reason.success()` and returned as "
                                             "`Ok(deliver)`: the value on the delivering path is not a constant the path enumeration can follow",
                                             ["C04/once/deliver-implies-recorded"]),
    "RF7-G09-03-pubrel-release-id-and-checked-queue": ("`position` + `swap_remove` becomes an explicit indexed loop: a new bounds-checked indexing site on the inbound path "
                                                       "has no entry in the panic-site discharge table (a new site is reported by design)", ["C08/panic/"]),
    "RF5-C08-03-deserializer-remaining-slice": ("`MqttDeserializer::{buf, index}` replaced by the remaining slice + total length: the new `split_at` / subtraction sites "
                                                "have no entry in the panic-site discharge table; the byte count is `total - remaining.len()`, not a cursor field", ["C08/panic/", "C08/props-iter/", "C04/props-iter/", "C20/props-iter/"]),
    "RF5-C03-05-pubrel-size-and-encode-as-methods": ("reference functions become methods with *different* parameter sets (serialize_pubrel over a step record, "
                                                     "check_pubrel_size on the entry type, queue_release taking a ready-made record): positional argument rules lose the sites",
                                                     ["C03/rel/id", "C06/rel/id", "C03/wire/", "C04/offarena/", "C14/tx/"]),
    "RF5-C10-05-pingreq-decision-on-session-data": ("both keep-alive decision functions deleted, the enqueue folded into the two step loops: the `due` truth table is taken "
                                                    "of a loop-free function", ["C10/ANCHOR-LOST/due/"]),
    "RF5-C20-05-iter-next-per-variant": ("`PropertiesIter::next` split into per-variant helpers over `&mut index`: the dominating guard of the index arithmetic is spelled "
                                         "over parameters", ["C08/panic/"]),
}
