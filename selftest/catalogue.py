"""Mutation and refactor catalogue for checker self-validation (thorough tier and development).
Each mutant is a small source edit that still compiles; `expect` lists obligation keys that must start failing.
Edits are (file, old text, new text); the old text must occur exactly once in the current tree, otherwise the
entry is reported as skipped (the tree was edited), never as a failure."""

OPS = "src/mqtt_client/session/operations.rs"
DRIVE = "src/mqtt_client/session/drive.rs"
INB = "src/mqtt_client/session/inbound.rs"
OUT = "src/mqtt_client/outbound.rs"
HS = "src/mqtt_client/session/handshake.rs"
STATE = "src/mqtt_client/session/state.rs"
SMOD = "src/mqtt_client/session/mod.rs"
PROPS = "src/properties.rs"

MUTANTS = []
REFACTORS = []


def M(mid, props, edits, expect):
    MUTANTS.append((mid, props if isinstance(props, list) else [props], edits, expect))


def RF(mid, props, edits):
    REFACTORS.append((mid, props if isinstance(props, list) else [props], edits))


# ---------------------------------------------------------------------------------------------- C11
M("C11-flush-no-latch", "C11", [(DRIVE, '''            warn!("Outbound packet flush failed: {}", err.kind());
            self.handle_disconnect();''', '''            warn!("Outbound packet flush failed: {}", err.kind());''')],
  ["C11/fatal/flush_current/Write.flush#1"])
M("C11-step-no-live-check", "C11", [(DRIVE, '''        if !self.live {
            return Err(Error::Disconnected);
        }
        let WriteStep {''', '''        let WriteStep {''')],
  ["C11/guard/perform_outbound_step/write_current#1"])
M("C11-invalid-packet-no-latch", "C11", [(INB, '''                warn!("Disconnecting session after packet handling error");
                self.handle_disconnect();
                Err(Error::Peer(PeerError::InvalidPacket))''', '''                warn!("Disconnecting session after packet handling error");
                Err(Error::Peer(PeerError::InvalidPacket))''')],
  ["C11/fatal-inbound/handle_packet#1"])
M("C11-decode-error-no-latch", "C11", [(INB, '''                warn!("Failed to decode inbound packet: {}", err);
                self.handle_disconnect();
                return Err(err.into());''', '''                warn!("Failed to decode inbound packet: {}", err);
                return Err(err.into());''')],
  ["C11/fatal-inbound/take_packet#1"])
M("C11-qos0-write-error-no-latch", "C11", [(OPS, '''            warn!("QoS0 PUBLISH write failed");
            self.handle_disconnect();''', '''            warn!("QoS0 PUBLISH write failed");''')],
  ["C11/fatal/publish/write_all#1"])
M("C11-subscribe-no-entry-check", "C11", [(OPS, '''        if !self.live {
            return Err(Error::Disconnected);
        }
        if topics.is_empty() {
            return Err(Error::InvalidRequest);
        }
        if !Properties::from_slice(properties).valid_for(PropertyContext::Subscribe) {''', '''        if topics.is_empty() {
            return Err(Error::InvalidRequest);
        }
        if !Properties::from_slice(properties).valid_for(PropertyContext::Subscribe) {''')],
  ["C11/entry/subscribe"])
M("C11-keepalive-timeout-no-latch", "C11", [(DRIVE, '''            self.handle_disconnect();
            return Err(Error::Disconnected);
        }
        self.service_outbound_once(now).await''', '''            return Err(Error::Disconnected);
        }
        self.service_outbound_once(now).await''')],
  ["C11/ctor/service#1"])
M("C11-read-error-latch-only-transport", "C11", [(DRIVE, '''                _ => {}
            }
            self.handle_disconnect();
            return Err(err);
        }
        Ok(())''', '''                _ => {}
            }
            if matches!(err, Error::Transport(_)) {
                self.handle_disconnect();
            }
            return Err(err);
        }
        Ok(())''')],
  ["C11/fatal/read_packet/fill_packet_reader#1"])
M("C11-can-publish-ignores-live", "C11", [(SMOD, '''        self.live && self.session.can_publish(qos)''', '''        self.session.can_publish(qos)''')],
  ["C11/canpub/live-gated"])
M("C11-disconnect-dead-returns-err", "C11", [(OPS, '''        if !self.live {
            return Ok(());
        }
        info!("Graceful disconnect requested");''', '''        if !self.live {
            return Err(Error::Disconnected);
        }
        info!("Graceful disconnect requested");''')],
  ["C11/dead-value/disconnect_with@1"])
M("C11-revive-after-disconnect", "C11", [(OPS, '''        // The transport is finished after a DISCONNECT regardless of the write outcome.
        self.handle_disconnect();
        result''', '''        // The transport is finished after a DISCONNECT regardless of the write outcome.
        self.handle_disconnect();
        if result.is_err() {
            self.live = true;
        }
        result''')],
  ["C11/once/disconnect_with"])

# ---------------------------------------------------------------------------------------------- C02
M("C02-retain-after-flush", "C02", [(OPS, '''            self.session
                .data
                .outbound
                .retain_packet(packet_id, offset, len)?;
            self.session.runtime.send_quota = self.session.runtime.send_quota.saturating_sub(1);''', '''            self.flush_outbound().await?;
            self.session
                .data
                .outbound
                .retain_packet(packet_id, offset, len)?;
            self.session.runtime.send_quota = self.session.runtime.send_quota.saturating_sub(1);''')],
  ["C02/enq/publish/enqueue-atomic"])
M("C02-swap-remove-retained", "C02", [(OUT, '''        self.retained.remove(position);''', '''        self.retained.swap_remove(position);''')],
  ["C02/order/retained/ack_packet/swap_remove"])
M("C02-puback-wrong-id", "C02", [(INB, '''                if !self.outbound.ack_packet(ack.packet_id) {
                    debug!("Ignoring stale PUBACK for packet id {=u16}", ack.packet_id);''', '''                if !self.outbound.ack_packet(ack.packet_id.wrapping_add(0)) {
                    debug!("Ignoring stale PUBACK for packet id {=u16}", ack.packet_id);''')],
  ["C02/remove/caller/PubAck"])
M("C02-pingresp-drops-oldest", "C02", [(INB, '''                trace!("Received PINGRESP");
                runtime.ping_timeout = None;''', '''                trace!("Received PINGRESP");
                runtime.ping_timeout = None;
                if runtime.send_quota == 0 {
                    self.outbound.ack_packet(1);
                }''')],
  ["C02/remove/caller/PingResp"])
M("C02-rearm-in-flush-outbound", "C02", [(DRIVE, '''        loop {
            self.maybe_queue_pingreq(Instant::now())?;
            let Some(step) = self.session.data.outbound.next_step() else {
                return Ok(());
            };''', '''        loop {
            self.maybe_queue_pingreq(Instant::now())?;
            let Some(step) = self.session.data.outbound.next_step() else {
                if self.session.runtime.ping_timeout.is_some() {
                    self.session.data.outbound.arm_replay();
                }
                return Ok(());
            };''')],
  ["C02/once/rearm-caller/flush_outbound"])
M("C02-reset-on-resumed", "C02", [(HS, '''        if !resumed {
            debug!("Broker started a fresh session; resetting local session state");
            self.data.reset();
        }''', '''        if !resumed || self.runtime.max_qos.is_none() {
            debug!("Broker started a fresh session; resetting local session state");
            self.data.reset();
        }''')],
  ["C02/remove/reset-caller/connect_handshake"])
M("C02-flush-marks-wrong-queue", "C02", [(DRIVE, '''            FlushedPacket::Retained(packet_id) => data.outbound.flush_retained(packet_id),
        };
        debug_assert!(found, "completed outbound packet no longer tracked");''', '''            FlushedPacket::Retained(packet_id) => data.outbound.flush_release(packet_id),
        };
        debug_assert!(found, "completed outbound packet no longer tracked");''')],
  ["C02/sent/complete/Retained"])
M("C02-no-dup-on-rearm", "C02", [(OUT, '''        self.mark_retained_dup();
        for entry in &mut self.pending_control {''', '''        for entry in &mut self.pending_control {''')],
  ["C02/dup/rearm/arm_replay"])
M("C02-clear-on-disconnect", "C02", [(HS, '''        self.data.outbound.arm_replay();
        self.runtime.reset_transport();
        self.packet_reader.reset();
    }''', '''        self.data.outbound.arm_replay();
        if self.data.outbound.retained_full() {
            self.data.outbound.clear();
        }
        self.runtime.reset_transport();
        self.packet_reader.reset();
    }''')],
  ["C02/remove/clear-caller/handle_disconnect"])
