"""Mutation and refactor catalogue for checker self-validation (thorough tier and development).
Each mutant is a small source edit that still compiles; `expect` lists obligation keys that must start failing.
Edits are (file, old text, new text); the old text must occur exactly once in the current tree, otherwise the
entry is reported as skipped (the tree was edited), never as a failure."""

OPS = "src/mqtt_client/session/operations.rs"
DRIVE = "src/mqtt_client/session/drive.rs"
INB = "src/mqtt_client/session/inbound.rs"
OUT = "src/mqtt_client/outbound.rs"
HS = "src/mqtt_client/session/handshake.rs"
STATE = "src/mqtt_client/session/state.rs"
SMOD = "src/mqtt_client/session/mod.rs"
PROPS = "src/properties.rs"

MUTANTS = []
REFACTORS = []


def M(mid, props, edits, expect):
    MUTANTS.append((mid, props if isinstance(props, list) else [props], edits, expect))


def RF(mid, props, edits):
    REFACTORS.append((mid, props if isinstance(props, list) else [props], edits))


# ---------------------------------------------------------------------------------------------- C11
M("C11-flush-no-latch", "C11", [(DRIVE, '''            warn!("Outbound packet flush failed: {}", err.kind());
            self.handle_disconnect();''', '''            warn!("Outbound packet flush failed: {}", err.kind());''')],
  ["C11/fatal/flush_current/Write.flush#1"])
M("C11-step-no-live-check", "C11", [(DRIVE, '''        if !self.live {
            return Err(Error::Disconnected);
        }
        let WriteStep {''', '''        let WriteStep {''')],
  ["C11/guard/perform_outbound_step/write_current#1"])
M("C11-invalid-packet-no-latch", "C11", [(INB, '''                warn!("Disconnecting session after packet handling error");
                self.handle_disconnect();
                Err(Error::Peer(PeerError::InvalidPacket))''', '''                warn!("Disconnecting session after packet handling error");
                Err(Error::Peer(PeerError::InvalidPacket))''')],
  ["C11/fatal-inbound/handle_packet#1"])
M("C11-decode-error-no-latch", "C11", [(INB, '''                warn!("Failed to decode inbound packet: {}", err);
                self.handle_disconnect();
                return Err(err.into());''', '''                warn!("Failed to decode inbound packet: {}", err);
                return Err(err.into());''')],
  ["C11/fatal-inbound/take_packet#1"])
M("C11-qos0-write-error-no-latch", "C11", [(OPS, '''            warn!("QoS0 PUBLISH write failed");
            self.handle_disconnect();''', '''            warn!("QoS0 PUBLISH write failed");''')],
  ["C11/fatal/publish/write_all#1"])
M("C11-subscribe-no-entry-check", "C11", [(OPS, '''        if !self.live {
            return Err(Error::Disconnected);
        }
        if topics.is_empty() {
            return Err(Error::InvalidRequest);
        }
        if !Properties::from_slice(properties).valid_for(PropertyContext::Subscribe) {''', '''        if topics.is_empty() {
            return Err(Error::InvalidRequest);
        }
        if !Properties::from_slice(properties).valid_for(PropertyContext::Subscribe) {''')],
  ["C11/entry/subscribe"])
M("C11-keepalive-timeout-no-latch", "C11", [(DRIVE, '''            self.handle_disconnect();
            return Err(Error::Disconnected);
        }
        self.service_outbound_once(now).await''', '''            return Err(Error::Disconnected);
        }
        self.service_outbound_once(now).await''')],
  ["C11/ctor/service#1"])
M("C11-read-error-latch-only-transport", "C11", [(DRIVE, '''                _ => {}
            }
            self.handle_disconnect();
            return Err(err);
        }
        Ok(())''', '''                _ => {}
            }
            if matches!(err, Error::Transport(_)) {
                self.handle_disconnect();
            }
            return Err(err);
        }
        Ok(())''')],
  ["C11/fatal/read_packet/fill_packet_reader#1"])
M("C11-can-publish-ignores-live", "C11", [(SMOD, '''        self.live && self.session.can_publish(qos)''', '''        self.session.can_publish(qos)''')],
  ["C11/canpub/live-gated"])
M("C11-disconnect-dead-returns-err", "C11", [(OPS, '''        if !self.live {
            return Ok(());
        }
        info!("Graceful disconnect requested");''', '''        if !self.live {
            return Err(Error::Disconnected);
        }
        info!("Graceful disconnect requested");''')],
  ["C11/dead-value/disconnect_with@1"])
M("C11-revive-after-disconnect", "C11", [(OPS, '''        // The transport is finished after a DISCONNECT regardless of the write outcome.
        self.handle_disconnect();
        result''', '''        // The transport is finished after a DISCONNECT regardless of the write outcome.
        self.handle_disconnect();
        if result.is_err() {
            self.live = true;
        }
        result''')],
  ["C11/once/disconnect_with"])

# ---------------------------------------------------------------------------------------------- C02
M("C02-retain-after-flush", "C02", [(OPS, '''            self.session
                .data
                .outbound
                .retain_packet(packet_id, offset, len)?;
            self.session.runtime.send_quota = self.session.runtime.send_quota.saturating_sub(1);''', '''            self.flush_outbound().await?;
            self.session
                .data
                .outbound
                .retain_packet(packet_id, offset, len)?;
            self.session.runtime.send_quota = self.session.runtime.send_quota.saturating_sub(1);''')],
  ["C02/enq/publish/enqueue-atomic"])
M("C02-swap-remove-retained", "C02", [(OUT, '''        self.retained.remove(position);''', '''        self.retained.swap_remove(position);''')],
  ["C02/order/retained/ack_packet/swap_remove"])
M("C02-puback-wrong-id", "C02", [(INB, '''                if !self.outbound.ack_packet(ack.packet_id) {
                    debug!("Ignoring stale PUBACK for packet id {=u16}", ack.packet_id);''', '''                if !self.outbound.ack_packet(ack.packet_id.wrapping_add(0)) {
                    debug!("Ignoring stale PUBACK for packet id {=u16}", ack.packet_id);''')],
  ["C02/remove/caller/PubAck"])
M("C02-pingresp-drops-oldest", "C02", [(INB, '''                trace!("Received PINGRESP");
                runtime.ping_timeout = None;''', '''                trace!("Received PINGRESP");
                runtime.ping_timeout = None;
                if runtime.send_quota == 0 {
                    self.outbound.ack_packet(1);
                }''')],
  ["C02/remove/caller/PingResp"])
M("C02-rearm-in-flush-outbound", "C02", [(DRIVE, '''        loop {
            self.maybe_queue_pingreq(Instant::now())?;
            let Some(step) = self.session.data.outbound.next_step() else {
                return Ok(());
            };''', '''        loop {
            self.maybe_queue_pingreq(Instant::now())?;
            let Some(step) = self.session.data.outbound.next_step() else {
                if self.session.runtime.ping_timeout.is_some() {
                    self.session.data.outbound.arm_replay();
                }
                return Ok(());
            };''')],
  ["C02/once/rearm-caller/flush_outbound"])
M("C02-reset-on-resumed", "C02", [(HS, '''        if !resumed {
            debug!("Broker started a fresh session; resetting local session state");
            self.data.reset();
        }''', '''        if !resumed || self.runtime.max_qos.is_none() {
            debug!("Broker started a fresh session; resetting local session state");
            self.data.reset();
        }''')],
  ["C02/remove/reset-caller/connect_handshake"])
M("C02-flush-marks-wrong-queue", "C02", [(DRIVE, '''            FlushedPacket::Retained(packet_id) => data.outbound.flush_retained(packet_id),
        };
        debug_assert!(found, "completed outbound packet no longer tracked");''', '''            FlushedPacket::Retained(packet_id) => data.outbound.flush_release(packet_id),
        };
        debug_assert!(found, "completed outbound packet no longer tracked");''')],
  ["C02/sent/complete/Retained"])
M("C02-no-dup-on-rearm", "C02", [(OUT, '''        self.mark_retained_dup();
        for entry in &mut self.pending_control {''', '''        for entry in &mut self.pending_control {''')],
  ["C02/dup/rearm/arm_replay"])
M("C02-clear-on-disconnect", "C02", [(HS, '''        self.data.outbound.arm_replay();
        self.runtime.reset_transport();
        self.packet_reader.reset();
    }''', '''        self.data.outbound.arm_replay();
        if self.data.outbound.retained_full() {
            self.data.outbound.clear();
        }
        self.runtime.reset_transport();
        self.packet_reader.reset();
    }''')],
  ["C02/remove/clear-caller/handle_disconnect"])

# ---------------------------------------------------------------------------------------------- C03
M("C03-swap-remove-release", "C03", [(OUT, '''        self.pending_release.remove(position);''', '''        self.pending_release.swap_remove(position);''')],
  ["C03/order/pending_release/ack_release/swap_remove"])
M("C03-pubrel-despite-failed-pubrec", "C03", [(INB, '''                rec.reason.code().as_result()?;
                if queue_release {
                    check_pubrel_size(
                        runtime.maximum_packet_size,
                        rec.packet_id,
                        ReasonCode::Success,
                    )?;
                    self.outbound
                        .queue_release(rec.packet_id, ReasonCode::Success)?;
                    debug!("Queued PUBREL for packet_id={=u16}", rec.packet_id);
                }''', '''                if queue_release {
                    check_pubrel_size(
                        runtime.maximum_packet_size,
                        rec.packet_id,
                        ReasonCode::Success,
                    )?;
                    self.outbound
                        .queue_release(rec.packet_id, ReasonCode::Success)?;
                    debug!("Queued PUBREL for packet_id={=u16}", rec.packet_id);
                }
                rec.reason.code().as_result()?;''')],
  ["C03/rel/after-reason#1"])
M("C03-requeue-on-stale-pubrec", "C03", [(INB, '''                            "Replaying PUBREL after stale PUBREC for packet id {=u16}",
                            rec.packet_id
                        );
                        false''', '''                            "Replaying PUBREL after stale PUBREC for packet id {=u16}",
                            rec.packet_id
                        );
                        true''')],
  ["C03/rel/after-removal#1"])
M("C03-pubrel-wrong-id", "C03", [(DRIVE, '''                    let packet = serialize_pubrel(
                        &mut small_buf,
                        step.packet_id,''', '''                    let packet = serialize_pubrel(
                        &mut small_buf,
                        step.packet_id.max(1),''')],
  ["C03/wire/pubrel-id#1"])
M("C03-pubcomp-removes-by-pubrec-id", "C03", [(INB, '''                if !self.outbound.ack_release(comp.packet_id) {''', '''                if !self.outbound.ack_release(comp.packet_id ^ 0) {''')],
  ["C03/comp/caller/PubComp"])
M("C03-release-not-rearmed", ["C03"], [(OUT, '''        for entry in &mut self.pending_release {
            entry.state = SendState::Write { written: 0 };
        }''', '''        for entry in &mut self.pending_release {
            let _ = entry;
        }''')],
  ["C03/wire/rearmed"])
M("C03-suback-queues-pubrel", "C03", [(INB, '''                debug!("Processed SUBACK packet_id={=u16}", ack.packet_id);''', '''                debug!("Processed SUBACK packet_id={=u16}", ack.packet_id);
                if ack.codes.is_empty() {
                    self.outbound.queue_release(ack.packet_id, ReasonCode::Success)?;
                }''')],
  ["C03/rel/COUNT"])

# ---------------------------------------------------------------------------------------------- C01
WIRE = "src/wire.rs"
SER = "src/ser/mod.rs"
M("C01-publish-no-leading-drain", "C01", [(OPS, '''            return Err(Error::Disconnected.into());
        }
        self.flush_outbound().await?;

        let Publication {''', '''            return Err(Error::Disconnected.into());
        }

        let Publication {''')],
  ["C01/drain/publish/write_all#1"])
M("C01-pubrel-flags-zero", "C01", [(WIRE, '''    const MESSAGE_TYPE: MessageType = MessageType::PubRel;

    fn fixed_header_flags(&self) -> u8 {
        0b0010
    }''', '''    const MESSAGE_TYPE: MessageType = MessageType::PubRel;

    fn fixed_header_flags(&self) -> u8 {
        0b0000
    }''')],
  ["C01/flags/value/PubRel"])
M("C01-pubcomp-wrong-type", "C01", [(WIRE, '''    const MESSAGE_TYPE: MessageType = MessageType::PubComp;''', '''    const MESSAGE_TYPE: MessageType = MessageType::PubRec;''')],
  ["C01/flags/type/PubComp"])
M("C01-compose-mask", "C01", [(SER, '''let header = ((typ as u8) << 4) | (flags & 0x0F);''', '''let header = ((typ as u8) << 4) | (flags & 0x1F);''')],
  ["C01/flags/compose"])
M("C01-subscribe-dup-true", "C01", [(OPS, '''        let (offset, len) = self.session.data.outbound.encode_packet(&Subscribe {
            packet_id,
            dup: false,''', '''        let (offset, len) = self.session.data.outbound.encode_packet(&Subscribe {
            packet_id,
            dup: topics.len() > 1,''')],
  ["C01/flags/value/Subscribe"])
M("C01-replay-skips-control", "C01", [(OUT, '''        for entry in &mut self.pending_control {
            entry.state = SendState::Write { written: 0 };
        }
        for entry in &mut self.retained {''', '''        for entry in &mut self.retained {''')],
  ["C01/replay/pending_control"])
M("C01-disconnect-no-latch", ["C01"], [(OPS, '''        // The transport is finished after a DISCONNECT regardless of the write outcome.
        self.handle_disconnect();
        result''', '''        // The transport is finished after a DISCONNECT regardless of the write outcome.
        if result.is_err() {
            self.handle_disconnect();
        }
        result''')],
  ["C01/last/write_all#1"])
M("C01-remaining-length-off", "C01", [(SER, '''            .checked_sub(MAX_FIXED_HEADER_SIZE)
            .ok_or(Error::InsufficientMemory)?;

        let mut buffer = VarintBuffer::new();''', '''            .checked_sub(MAX_FIXED_HEADER_SIZE - 1)
            .ok_or(Error::InsufficientMemory)?;

        let mut buffer = VarintBuffer::new();''')],
  ["C01/len/remaining-length"])
M("C01-flush-counts-as-fresh", "C01", [(OUT, '''        matches!(self, Self::Write { written: 0 })''', '''        matches!(self, Self::Write { written: 0 } | Self::Flush)''')],
  ["C01/class/fresh"])
M("C01-fresh-before-in-progress", "C01", [(OUT, '''        for in_progress in [true, false] {''', '''        for in_progress in [false, true] {''')],
  ["C01/priority/in-progress-first"])
M("C01-publish-finalized-as-pubrel", "C01", [(SER, '''            .finalize(MessageType::Publish, flags)''', '''            .finalize(MessageType::PubRel, flags)''')],
  ["C01/flags/finalize-args/encode_publish_with_offset"])
M("C01-slice-from-zero", "C01", [(SER, '''        Ok((offset, &self.buf[offset..self.index]))''', '''        Ok((offset, &self.buf[..self.index]))''')],
  ["C01/len/slice"])
M("C01-in-progress-needs-two-bytes", "C01", [(OUT, '''        matches!(self, Self::Write { written: 1.. } | Self::Flush)''', '''        matches!(self, Self::Write { written: 2.. } | Self::Flush)''')],
  ["C01/class/in-progress"])

ALLP = ["C01", "C02", "C03", "C11"]
RF("RF-validate-before-drain", ALLP, [(OPS, '''        self.flush_outbound().await?;

        let Publication {
            topic,
            properties,
            qos,
            payload,
            retain,
        } = publication;
        if !properties.valid_for(PropertyContext::Publish) {
            return Err(Error::InvalidRequest.into());
        }''', '''        let Publication {
            topic,
            properties,
            qos,
            payload,
            retain,
        } = publication;
        if !properties.valid_for(PropertyContext::Publish) {
            return Err(Error::InvalidRequest.into());
        }
        self.flush_outbound().await?;
''')])
RF("RF-inline-require-slot", ALLP, [(OPS, '''        self.flush_outbound().await?;
        self.require_retained_slot()?;

        let packet_id = self.session.data.next_packet_id();
        let (offset, len) = self.session.data.outbound.encode_packet(&Subscribe {''', '''        self.flush_outbound().await?;
        if self.session.data.outbound.retained_full() {
            return Err(Error::Resource(ResourceError::InflightExhausted));
        }

        let packet_id = self.session.data.next_packet_id();
        let (offset, len) = self.session.data.outbound.encode_packet(&Subscribe {''')])
RF("RF-log-text-and-arg", ALLP, [(INB, '''                debug!("Processed PUBCOMP packet_id={=u16}", comp.packet_id);''', '''                debug!(
                    "PUBCOMP done packet_id={=u16} quota={=u16}",
                    comp.packet_id, runtime.send_quota
                );''')])
RF("RF-matches-to-match", ALLP, [(OUT, '''        matches!(self, Self::Write { written: 0 })''', '''        match self {
            Self::Write { written } => written == 0,
            Self::Flush | Self::Sent => false,
        }''')])
RF("RF-rename-locals", ALLP, [(DRIVE, '''        let count = match write_current(&mut self.io, &bytes[written..]).await {
            Ok(count) => count,''', '''        let count = match write_current(&mut self.io, &bytes[written..]).await {
            Ok(accepted) => accepted,''')])
RF("RF-extract-write-helper", ALLP, [(OPS, '''        if let Err(err) = write_all(&mut self.io, packet).await {
            if matches!(err, Error::WriteZero) {''', '''        let write_result = write_all(&mut self.io, packet).await;
        if let Err(err) = write_result {
            if matches!(err, Error::WriteZero) {''')])
RF("RF-early-return-style", ALLP, [(DRIVE, '''        if let Err(err) = self.io.flush().await {
            warn!("Outbound packet flush failed: {}", err.kind());
            self.handle_disconnect();
            return Err(Error::Transport(err));
        }
        self.complete_flush(packet, now);
        Ok(())''', '''        match self.io.flush().await {
            Ok(()) => {
                self.complete_flush(packet, now);
                Ok(())
            }
            Err(err) => {
                warn!("Outbound packet flush failed: {}", err.kind());
                self.handle_disconnect();
                Err(Error::Transport(err))
            }
        }''')])
